package main

import (
	"fmt"
	"go/constant"
	"go/token"
	"go/types"
	"regexp/syntax"
	"sort"
	"strings"
	"unicode/utf8"

	"golang.org/x/tools/go/ssa"
)

// C13, width clause only. Engine E9: inference of an inductive loop invariant
// in a template family of linear (in)equalities, Houdini style, followed by
// the proof of the goal from that invariant.
//
// The wrapping functions are one loop over the matches of ansi.expand (one
// visible character per match, R0) that keeps strings (the line, the word, the
// pending blanks, or the whole result) next to integer counters. Strings are
// abstracted to an upper bound of the number of visible characters — of the
// whole string for pieces that never receive a line feed from the code, of the
// last line for an accumulator that does. The state of the loop is the phis of
// its header. Candidates, over the integer phis n, m, ..., the string phis s
// and the width parameter w (assumed >= 1, the property's precondition):
//
//	n >= 0        n <= w        n1+..+nk <= w        m = 0  or  n1+..+nk <= w
//	W(s) <= n
//
// A candidate survives if it holds on entry and, assuming all survivors before
// any trip round the loop (every acyclic header-to-header path with its branch
// facts, disjunctive survivors and != facts by case split), it holds after it.
// Dropping to a fixpoint gives the strongest inductive invariant inside the
// family. The goal — every line that is completed (an element appended to the
// slice that is joined with line feeds, the accumulator at the moment a line
// feed or another character is added to it) has at most w visible characters —
// is then proved on every path from the header, through the loop or out of
// it, from that invariant and the facts of the path. Linear reasoning is exact
// (simplex over the rationals, lp.go).

func init() {
	registry["C13"] = func() *Property {
		return &Property{
			ID:          "C13",
			Explanation: "Width clause only, decided by inference of an inductive loop invariant (engine E9): ansi.Wrap and ansi.DumbWrap are one loop over the matches of ansi.expand; strings are abstracted to an upper bound of their number of visible characters (whole string, or last line for an accumulator that receives line feeds), the state of the loop is the phis of its header, and the strongest inductive invariant inside a template family of linear facts over the counters, the width and the string bounds (n >= 0, n <= w, sums <= w, `m = 0 or sum <= w`, W(s) <= n) is computed Houdini style over all acyclic header-to-header paths, with exact linear reasoning (simplex over the rationals). Decided: (R0) ansi.expand returns the matches of a pattern that consumes exactly one character outside escape sequences per match, so a match is one visible character; (R1) every line ansi.Wrap completes — every element appended to the slice it joins with line feeds — has at most `length` visible characters on every path, for every width >= 1; (R2) the same for ansi.DumbWrap's accumulator at every point where a character or line feed is added; (R3) with lower bounds next to the upper ones (a piece of a match counts towards a lower bound only where the path knows its character is no line feed), every line ansi.Pad completes, and the last line it returns, has at least `length` visible characters and exactly `length` where padding was added; (R4) DumbWrap, Pad and Indent keep every character: each is one loop over the matches of expand(text) in ascending order, and every acyclic path round the loop appends to the one accumulator, at its end, inserted material and the content of the current match exactly once — the whole match (escape sequences included) when the character is no line feed, a line feed when it is; nothing of the text is appended after the loop; (R5) every line feed ansi.Indent emits is directly followed by the prefix, a match that may be a line feed is never copied as it is, and the accumulator enters the loop as the prefix exactly on the includeFirst arm. (R6) ansi.Wrap keeps every character that is not a blank, in order: the exit path that flushes every buffer gives the logical order of the buffers (completed lines, current line, pending blanks, word), every buffer's new value on a path is evaluated symbolically to a sequence of old buffer contents, the current character and constants, and on every path round the loop and out of it the buffers read in logical order must hold what they held before followed by the current character, up to buffers that are provably empty on that path (invariant of R1 and path facts, by LP), buffers that only ever receive blanks, the current character where it is known to be a blank, and blank constants; on a path that knows the character to be a line feed a line is completed; a buffer other than the current line is pushed as a line of its own only where its counter has provably reached the width. (R7) ansi.Snip returns at most `height` lines that are a gap-free prefix of the lines of its text, in order, plus at most the ellipsis: the index starts at min(len(lines), height)-1 with nothing kept, drops by exactly one on every path round the loop while the kept slice grows by one line or not at all, what is kept is collapse(expand(lines[i])) possibly without its tail, put in front of what was kept before, a trip keeps nothing only while nothing is kept yet, the result is the kept lines joined with line feeds plus possibly the ellipsis parameter, and every caller passes a constant ellipsis without a line feed. (R8) every unicode.IsSpace / IsPrint / IsControl in package ansi is asked of a rune of the text, never of a byte of its UTF-8 encoding. (R7, third shape) a Snip without a collecting loop is decided path by path on slices of the lines.  NOT decided: which blanks Wrap keeps; that Wrap breaks lines only where it must.",
			Assumptions: []string{"width >= 1 (the property's own precondition)", "regexp semantics: FindAllStringSubmatch returns non-overlapping matches, element 0 the whole match", "a visible character is one match of ansi.expand (escape sequences inside a match are not visible)"},
			Rules: []Rule{
				{ID: "C13.R0", Title: "ansi.expand yields one visible character per match", Floor: 2, Run: c13R0},
				{ID: "C13.R1", Title: "ansi.Wrap never completes a line wider than the width", Floor: 4, Run: func(c *Ctx) { c13Width(c, "Wrap") }},
				{ID: "C13.R2", Title: "ansi.DumbWrap never completes a line wider than the width", Floor: 3, Run: func(c *Ctx) { c13Width(c, "DumbWrap") }},
				{ID: "C13.R3", Title: "ansi.Pad makes every line at least the width, exactly the width where it adds padding", Floor: 3, Run: func(c *Ctx) { c13Loop(c, "Pad", "pad") }},
				{ID: "C13.R4", Title: "DumbWrap, Pad and Indent keep every character, with its escape sequences, in order, and every line break", Floor: 10, Run: c13Content},
				{ID: "C13.R5", Title: "ansi.Indent puts the prefix after every line feed, and in front of the first line exactly when asked", Floor: 3, Run: c13IndentShape},
				{ID: "C13.R6", Title: "ansi.Wrap keeps every character that is not a blank, in order; line feeds complete lines; words are cut only at the width", Floor: 12, Run: c13WrapContent},
				{ID: "C13.R8", Title: "what counts as a blank is decided on the visible character, not on a byte of it: every unicode.IsSpace in package ansi is given the first rune of the character", Floor: 2, Run: c13R8},
				{ID: "C13.R7", Title: "ansi.Snip returns at most `height` lines: a gap-free prefix of the lines of the text, in order, plus at most the ellipsis", Floor: 6, Run: c13Snip},
			},
		}
	}
}

// ---------------------------------------------------------------- R0

func c13R0(c *Ctx) {
	P := c.P
	fn := P.FuncOpt("servitor/ansi", "expand")
	if fn == nil {
		c.bad("servitor/ansi.expand", "ansi", "servitor/ansi", "ansi.expand not found: what a visible character is cannot be established")
		return
	}
	fname := FuncName(fn)
	var pattern string
	nCompile, found := 0, false
	var finder *ssa.Call
	eachInstr(fn, func(_ *ssa.BasicBlock, _ int, in ssa.Instruction) {
		call, ok := in.(*ssa.Call)
		if !ok {
			return
		}
		if isLibCall(&call.Call, "regexp", "", "MustCompile") || isLibCall(&call.Call, "regexp", "", "Compile") {
			nCompile++
			if s, ok := constString(call.Call.Args[0]); ok {
				pattern, found = s, true
			}
		}
		if sc := call.Call.StaticCallee(); sc != nil && sc.Pkg != nil && sc.Pkg.Pkg.Path() == "regexp" && sc.Name() == "FindAllStringSubmatch" {
			finder = call
		}
	})
	if !found {
		// a package-level pattern
		for _, g := range regexGlobalsUsedBy(P, fn) {
			if s, ok := P.regexOfGlobal(g); ok {
				pattern, found = s, true
				nCompile++
			}
		}
	}
	if !c.check(found && nCompile == 1, fname+"/pattern", P.Pos(fn.Pos()), fname, "one constant pattern", "the pattern ansi.expand matches with is not one constant: what a visible character is cannot be established") {
		return
	}
	re, err := syntax.Parse(pattern, syntax.Perl)
	okShape := err == nil
	why := "the pattern does not parse"
	if okShape {
		okShape, why = oneVisiblePerMatch(re)
	}
	c.check(okShape, fname+"/one-visible-character", P.Pos(fn.Pos()), fname, "each match consumes exactly one character outside escape sequences (pattern "+pattern+")", "the pattern of ansi.expand ("+pattern+") does not consume exactly one character outside escape sequences per match ("+why+"): the counters of the wrapping code count matches, not visible characters")
	// the result is FindAllStringSubmatch(text, -1) of it
	okRet := false
	if finder != nil {
		eachInstr(fn, func(_ *ssa.BasicBlock, _ int, in ssa.Instruction) {
			if ret, ok := in.(*ssa.Return); ok && len(ret.Results) == 1 && ret.Results[0] == ssa.Value(finder) {
				if k, isC := constInt(finder.Call.Args[len(finder.Call.Args)-1]); isC && k < 0 && unwrapLoad(finder.Call.Args[len(finder.Call.Args)-2]) == ssa.Value(fn.Params[0]) {
					okRet = true
				}
			}
		})
	}
	c.check(okRet, fname+"/all-matches", P.Pos(fn.Pos()), fname, "returns all matches of the text", "ansi.expand does not return FindAllStringSubmatch(text, -1): characters can go missing or be counted against another text")
}

// regexGlobalsUsedBy / regexOfGlobal: package-level `var r = regexp.MustCompile(const)`.
func regexGlobalsUsedBy(P *Program, fn *ssa.Function) []*ssa.Global {
	var out []*ssa.Global
	seen := map[*ssa.Global]bool{}
	eachInstr(fn, func(_ *ssa.BasicBlock, _ int, in ssa.Instruction) {
		for _, op := range in.Operands(nil) {
			if op == nil || *op == nil {
				continue
			}
			if g, ok := (*op).(*ssa.Global); ok && !seen[g] && strings.Contains(g.Type().String(), "regexp.Regexp") {
				seen[g] = true
				out = append(out, g)
			}
		}
	})
	return out
}

func (P *Program) regexOfGlobal(g *ssa.Global) (string, bool) {
	if g.Pkg == nil {
		return "", false
	}
	init := g.Pkg.Func("init")
	if init == nil {
		return "", false
	}
	pat, ok := "", false
	n := 0
	eachInstr(init, func(_ *ssa.BasicBlock, _ int, in ssa.Instruction) {
		st, isSt := in.(*ssa.Store)
		if !isSt || st.Addr != ssa.Value(g) {
			return
		}
		n++
		if call, isCall := st.Val.(*ssa.Call); isCall && isLibCall(&call.Call, "regexp", "", "MustCompile") {
			if s, isC := constString(call.Call.Args[0]); isC {
				pat, ok = s, true
			}
		}
	})
	return pat, ok && n == 1
}

// oneVisiblePerMatch: the pattern is a concatenation in which exactly one
// element consumes exactly one arbitrary character and every other element
// is an optional or repeated group that starts with ESC.
func oneVisiblePerMatch(re *syntax.Regexp) (bool, string) {
	parts := []*syntax.Regexp{re}
	if re.Op == syntax.OpConcat {
		parts = re.Sub
	}
	visible := 0
	for _, p := range parts {
		q := p
		for q.Op == syntax.OpCapture {
			q = q.Sub[0]
		}
		switch q.Op {
		case syntax.OpAnyChar, syntax.OpAnyCharNotNL, syntax.OpCharClass:
			visible++
		case syntax.OpStar, syntax.OpQuest:
			if !startsWithEsc(q.Sub[0]) {
				return false, "an optional or repeated part does not start with ESC"
			}
		case syntax.OpEmptyMatch, syntax.OpBeginText, syntax.OpEndText, syntax.OpBeginLine, syntax.OpEndLine:
		default:
			return false, "unexpected element " + q.String()
		}
	}
	if visible != 1 {
		return false, fmt.Sprintf("%d single-character elements", visible)
	}
	return true, ""
}

func startsWithEsc(re *syntax.Regexp) bool {
	for re.Op == syntax.OpCapture {
		re = re.Sub[0]
	}
	switch re.Op {
	case syntax.OpLiteral:
		return len(re.Rune) > 0 && re.Rune[0] == 0x1b
	case syntax.OpConcat:
		return len(re.Sub) > 0 && startsWithEsc(re.Sub[0])
	case syntax.OpAlternate:
		for _, s := range re.Sub {
			if !startsWithEsc(s) {
				return false
			}
		}
		return len(re.Sub) > 0
	}
	return false
}

// ---------------------------------------------------------------- E9

type wloop struct {
	P        *Program
	fn       *ssa.Function
	H        *ssa.BasicBlock
	entry    *ssa.BasicBlock
	ints     []*ssa.Phi
	strs     []ssa.Value // string phis of the header, and local strings.Builder variables
	builders map[*ssa.Alloc]bool
	inLoop   map[*ssa.BasicBlock]bool // blocks reachable from the header
	width    *ssa.Parameter
	expand   map[ssa.Value]bool // calls of ansi.expand
	// accumulators that receive line feeds from the code: their bound is the
	// bound of the last line
	lastKind map[ssa.Value]bool
}

// wval: the abstract value of a string on a path.
type wval struct {
	pre, suf  linForm // upper bound of the first / last line (equal when reset is false: the whole string)
	preLo, lo linForm // lower bound of the first / last line
	reset     bool    // contains a line feed put there by the code
	mayNL     bool    // may contain a line feed that is not accounted for (an unknown character): lower bounds restart
	pad       bool    // contains padding (strings.Repeat)
}

func wexact(f linForm) wval { return wval{pre: f, suf: f, preLo: f, lo: f} }

type wctx struct {
	L    *wloop
	at   *ssa.BasicBlock // where the value being evaluated is put together (for branch facts)
	lc   *lcPath
	need []wneed // side conditions: form >= 0 must hold
}

type wneed struct {
	g    linForm
	what string
}

func (L *wloop) widthForm() linForm {
	r := newLin()
	r.coef[normSym(L.width)] = 1
	return r
}

func visibleCount(s string) int64 {
	// escape sequences ESC [ ... m are not visible
	n := int64(0)
	for i := 0; i < len(s); {
		if s[i] == 0x1b && i+1 < len(s) && s[i+1] == '[' {
			j := strings.IndexByte(s[i:], 'm')
			if j >= 0 {
				i += j + 1
				continue
			}
		}
		_, sz := utf8.DecodeRuneInString(s[i:])
		i += sz
		n++
	}
	return n
}

// matchPiece: v is element k of a match of ansi.expand.
func (L *wloop) matchPiece(v ssa.Value) (int64, bool) {
	var idx, base ssa.Value
	switch x := v.(type) {
	case *ssa.UnOp:
		if x.Op != token.MUL {
			return 0, false
		}
		ia, ok := x.X.(*ssa.IndexAddr)
		if !ok {
			return 0, false
		}
		idx, base = ia.Index, ia.X
	case *ssa.Index:
		idx, base = x.Index, x.X
	default:
		return 0, false
	}
	k, ok := constInt(idx)
	if !ok {
		return 0, false
	}
	// base: one match = an element of the result of expand
	switch b := base.(type) {
	case *ssa.UnOp:
		if b.Op != token.MUL {
			return 0, false
		}
		ia, ok := b.X.(*ssa.IndexAddr)
		if !ok || !L.expand[unwrapLoad(ia.X)] {
			return 0, false
		}
	case *ssa.Index:
		if !L.expand[unwrapLoad(b.X)] {
			return 0, false
		}
	case *ssa.Extract:
		// range with value over the matches: next(...) tuples are not used for slices
		return 0, false
	default:
		return 0, false
	}
	return k, true
}

func (w *wctx) val(v ssa.Value, d int) wval {
	L, lc := w.L, w.lc
	one := func(k int64) wval { return wexact(linConst(k)) }
	if d > 24 {
		lc.problem("string expression too deep at %s", L.P.Pos(v.Pos()))
		return one(0)
	}
	piece := func(pv ssa.Value, k int64) wval {
		if k == 1 {
			return one(0) // the escape sequences in front of the character
		}
		// the whole match, or the character itself: one visible character —
		// unless it is a line feed, which only matters for lower bounds
		r := one(1)
		if !L.pieceNotNewline(pv, w.at) {
			r.lo, r.preLo, r.mayNL = linConst(0), linConst(0), true
		}
		return r
	}
	if k, ok := L.matchPiece(v); ok {
		return piece(v, k)
	}
	v = lc.at(v)
	if k, ok := L.matchPiece(v); ok {
		return piece(v, k)
	}
	switch x := v.(type) {
	case *ssa.Const:
		if x.Value != nil && x.Value.Kind() == constant.String {
			s := constant.StringVal(x.Value)
			if i := strings.Index(s, "\n"); i >= 0 {
				j := strings.LastIndex(s, "\n")
				for _, mid := range strings.Split(s[i+1:j+1], "\n") {
					if n := visibleCount(mid); n > 0 {
						w.need = append(w.need, wneed{lcGE(L.widthForm(), n), "a line inside a constant"})
					}
				}
				a, b := linConst(visibleCount(s[:i])), linConst(visibleCount(s[j+1:]))
				return wval{pre: a, suf: b, preLo: a, lo: b, reset: true}
			}
			return one(visibleCount(s))
		}
	case *ssa.BinOp:
		if x.Op == token.ADD {
			old := w.at
			w.at = x.Block()
			r := wcat(w, w.val(x.X, d+1), w.val(x.Y, d+1))
			w.at = old
			return r
		}
	case *ssa.Phi:
		if x.Block() == L.H {
			return w.headSym(x)
		}
	case *ssa.Alloc:
		if L.builders[x] {
			return w.headSym(x)
		}
	case *ssa.Call:
		if B, m, _ := builderOp(x); B != nil && m == "String" && L.builders[B] {
			return w.builderState(B, x)
		}
		if isLibCall(&x.Call, "strings", "", "Repeat") {
			if s, ok := constString(x.Call.Args[0]); ok && !strings.Contains(s, "\n") {
				n := lc.num(x.Call.Args[1])
				w.need = append(w.need, wneed{n, "the count of strings.Repeat"})
				r := wexact(newLin().add(n, visibleCount(s)))
				r.pad = true
				return r
			}
		}
	}
	lc.problem("the number of visible characters of the string at %s cannot be bounded (not built from matches of expand, constants and the loop's own strings)", L.P.Pos(v.Pos()))
	return one(0)
}

// headSym: the abstract value of a string state variable at the loop head.
func (w *wctx) headSym(x ssa.Value) wval {
	L, lc := w.L, w.lc
	r := newLin()
	s := "W:" + normSym(x)
	r.coef[s] = 1
	lc.unsigned[s] = true
	lo := newLin()
	ls := "Wlo:" + normSym(x)
	lo.coef[ls] = 1
	lc.unsigned[ls] = true
	if L.lastKind[x] {
		// an accumulator with line feeds in it: the symbols bound its last
		// line only, nothing is known about its first
		p := newLin()
		ps := "Wfirst:" + normSym(x)
		p.coef[ps] = 1
		lc.unsigned[ps] = true
		return wval{pre: p, suf: r, preLo: linConst(0), lo: lo, reset: true}
	}
	return wval{pre: r, suf: r, preLo: lo, lo: lo}
}

func wcat(w *wctx, a, b wval) wval {
	var r wval
	switch {
	case !a.reset && !b.reset:
		f := a.suf.add(b.suf, 1)
		r = wval{pre: f, suf: f}
	case a.reset && !b.reset:
		r = wval{pre: a.pre, suf: a.suf.add(b.suf, 1), reset: true}
	case !a.reset && b.reset:
		r = wval{pre: a.suf.add(b.pre, 1), suf: b.suf, reset: true}
	default:
		w.need = append(w.need, wneed{w.L.widthForm().add(a.suf.add(b.pre, 1), -1), "the line completed inside a concatenation"})
		r = wval{pre: a.pre, suf: b.suf, reset: true}
	}
	// lower bounds: a line feed inside b (known or possible) restarts the last line
	switch {
	case b.reset:
		r.lo = b.lo
	case b.mayNL:
		r.lo = linConst(0)
	default:
		r.lo = a.lo.add(b.lo, 1)
	}
	switch {
	case a.reset:
		r.preLo = a.preLo
	case a.mayNL:
		r.preLo = linConst(0)
	default:
		r.preLo = a.lo.add(b.preLo, 1)
	}
	r.mayNL = a.mayNL || b.mayNL
	r.pad = a.pad || b.pad
	return r
}

// pieceNotNewline: the piece pv of a match is used at block `at`, where the
// branch facts say that the character of the same match is not a line feed.
func (L *wloop) pieceNotNewline(pv ssa.Value, at *ssa.BasicBlock) bool {
	if at == nil {
		return false
	}
	base := func(v ssa.Value) ssa.Value {
		switch x := v.(type) {
		case *ssa.UnOp:
			if ia, ok := x.X.(*ssa.IndexAddr); ok && x.Op == token.MUL {
				return ia.X
			}
		case *ssa.Index:
			return x.X
		}
		return nil
	}
	b := base(pv)
	if b == nil {
		return false
	}
	for _, f := range factsOf(at.Parent()).At(at) {
		cmp, ok := f.Cmp()
		if !ok || cmp.Op != token.NEQ {
			continue
		}
		for _, side := range [][2]ssa.Value{{cmp.X, cmp.Y}, {cmp.Y, cmp.X}} {
			if s, ok := constString(side[1]); !ok || s != "\n" {
				continue
			}
			if k, ok := L.matchPiece(side[0]); ok && k == 2 && base(side[0]) == b {
				return true
			}
		}
	}
	return false
}

// builderOp: in is a method call on the local strings.Builder B.
func builderOp(in ssa.Instruction) (B *ssa.Alloc, method string, call *ssa.Call) {
	c, ok := in.(*ssa.Call)
	if !ok {
		return nil, "", nil
	}
	sc := c.Call.StaticCallee()
	if sc == nil || sc.Signature.Recv() == nil || len(c.Call.Args) == 0 {
		return nil, "", nil
	}
	n := namedOf(sc.Signature.Recv().Type())
	if n == nil || n.Obj().Pkg() == nil || n.Obj().Pkg().Path() != "strings" || n.Obj().Name() != "Builder" {
		return nil, "", nil
	}
	al, ok := c.Call.Args[0].(*ssa.Alloc)
	if !ok {
		return nil, "", nil
	}
	return al, sc.Name(), c
}

// written: the abstract value of what a Write* call adds.
func (w *wctx) written(method string, call *ssa.Call) (wval, bool) {
	one := func(k int64) wval { return wexact(linConst(k)) }
	switch method {
	case "WriteString":
		old := w.at
		w.at = call.Block()
		r := w.val(call.Call.Args[1], 0)
		w.at = old
		return r, true
	case "WriteByte", "WriteRune":
		if k, ok := constInt(w.lc.at(call.Call.Args[1])); ok {
			if k == '\n' {
				z := linConst(0)
				return wval{pre: z, suf: z, preLo: z, lo: z, reset: true}, true
			}
			return one(1), true
		}
		u := one(1) // an unknown character counts as visible; it may be a line feed
		u.lo, u.preLo, u.mayNL = linConst(0), linConst(0), true
		return u, true
	}
	return wval{}, false
}

// builderState: the abstract contents of B on the path just before `upto`
// (at the end of the path when upto is nil), starting from its value at the
// loop head.
func (w *wctx) builderState(B *ssa.Alloc, upto ssa.Instruction) wval {
	cur := w.headSym(B)
	blocks := w.lc.blocks
	for bi, b := range blocks {
		if bi == 0 && b != w.L.H {
			// the entry path: the builder is empty unless written before the loop
			cur = wexact(linConst(0))
		}
		for _, in := range b.Instrs {
			if in == upto {
				return cur
			}
			bb, m, call := builderOp(in)
			if bb != B {
				continue
			}
			switch m {
			case "Reset":
				cur = wexact(linConst(0))
			case "String", "Len", "Grow", "Cap":
			default:
				x, ok := w.written(m, call)
				if !ok {
					w.lc.problem("the builder operation %s at %s is not followed", m, w.L.P.InstrPos(in))
					continue
				}
				cur = wcat(w, cur, x)
			}
		}
	}
	return cur
}

// findLoop: the single natural loop of fn and its state.
func findWrapLoop(P *Program, fn *ssa.Function) (*wloop, string) {
	return findWrapLoopOpt(P, fn, true)
}

func findWrapLoopOpt(P *Program, fn *ssa.Function, needWidth bool) (*wloop, string) {
	L := &wloop{P: P, fn: fn, expand: map[ssa.Value]bool{}, lastKind: map[ssa.Value]bool{}, builders: map[*ssa.Alloc]bool{}, inLoop: map[*ssa.BasicBlock]bool{}}
	var headers []*ssa.BasicBlock
	for _, b := range fn.Blocks {
		for _, p := range b.Preds {
			if b.Dominates(p) {
				headers = append(headers, b)
				break
			}
		}
	}
	if len(headers) != 1 {
		return nil, fmt.Sprintf("%d loops where one loop over the matches of expand is expected", len(headers))
	}
	L.H = headers[0]
	for _, p := range L.H.Preds {
		if !L.H.Dominates(p) {
			if L.entry != nil {
				return nil, "the loop is entered from more than one place"
			}
			L.entry = p
		}
	}
	if L.entry == nil {
		return nil, "the loop has no entry"
	}
	for _, p := range fn.Params {
		if isInteger(p.Type()) {
			if L.width != nil && needWidth {
				return nil, "more than one integer parameter: which one is the width cannot be told"
			}
			L.width = p
		}
	}
	if L.width == nil && needWidth {
		return nil, "no width parameter"
	}
	eachInstr(fn, func(_ *ssa.BasicBlock, _ int, in ssa.Instruction) {
		if call, ok := in.(*ssa.Call); ok {
			if sc := call.Call.StaticCallee(); sc != nil && sc.Pkg != nil && sc.Pkg.Pkg.Path() == "servitor/ansi" && sc.Name() == "expand" {
				L.expand[call] = true
			}
		}
	})
	if len(L.expand) == 0 {
		return nil, "the text is not taken apart by ansi.expand"
	}
	// blocks reachable from the header
	work := []*ssa.BasicBlock{L.H}
	for len(work) > 0 {
		b := work[len(work)-1]
		work = work[:len(work)-1]
		if L.inLoop[b] {
			continue
		}
		L.inLoop[b] = true
		work = append(work, b.Succs...)
	}
	// local strings.Builder variables used through their methods only
	eachInstr(fn, func(_ *ssa.BasicBlock, _ int, in ssa.Instruction) {
		al, ok := in.(*ssa.Alloc)
		if !ok {
			return
		}
		n := namedOf(deref(al.Type()))
		if n == nil || n.Obj().Pkg() == nil || n.Obj().Pkg().Path() != "strings" || n.Obj().Name() != "Builder" {
			return
		}
		for _, r := range refs(al) {
			if B, _, _ := builderOp(r); B != al {
				return // escapes or is copied: not followed
			}
		}
		L.builders[al] = true
		L.strs = append(L.strs, al)
	})
	for _, in := range L.H.Instrs {
		ph, ok := in.(*ssa.Phi)
		if !ok {
			break
		}
		switch {
		case ph.Comment == "rangeindex":
		case isInteger(ph.Type()):
			L.ints = append(L.ints, ph)
		case isStringType(ph.Type()):
			L.strs = append(L.strs, ph)
		}
	}
	return L, ""
}

// candidate invariants
type wcand struct {
	desc  string
	guard *ssa.Phi   // "guard = 0 or ..." when non-nil
	sum   []*ssa.Phi // integer phis summed
	str   ssa.Value  // W(str) <= sum when non-nil (a string phi or a builder)
	strLo bool       // with str: the lower bound, visible_lo(str) >= sum
	lower bool       // sum >= 0 (otherwise sum <= width, or W(str) <= sum)
}

func phiName(p *ssa.Phi) string {
	if p.Comment != "" {
		return p.Comment
	}
	return p.Name()
}

func strName(v ssa.Value) string {
	switch x := v.(type) {
	case *ssa.Phi:
		return phiName(x)
	case *ssa.Alloc:
		return x.Comment
	}
	return v.Name()
}

func (L *wloop) candidates() []wcand {
	var out []wcand
	names := func(ps []*ssa.Phi) string {
		var s []string
		for _, p := range ps {
			s = append(s, phiName(p))
		}
		return strings.Join(s, "+")
	}
	for _, n := range L.ints {
		out = append(out, wcand{desc: phiName(n) + " >= 0", sum: []*ssa.Phi{n}, lower: true})
	}
	// non-empty subsets of the counters (at most 5 counters are followed)
	ints := L.ints
	if len(ints) > 5 {
		ints = ints[:5]
	}
	var subsets [][]*ssa.Phi
	for mask := 1; mask < 1<<len(ints); mask++ {
		var sub []*ssa.Phi
		for i, p := range ints {
			if mask&(1<<i) != 0 {
				sub = append(sub, p)
			}
		}
		subsets = append(subsets, sub)
	}
	sort.SliceStable(subsets, func(i, j int) bool { return len(subsets[i]) < len(subsets[j]) })
	for _, sub := range subsets {
		out = append(out, wcand{desc: names(sub) + " <= width", sum: sub})
	}
	for _, g := range ints {
		for _, sub := range subsets {
			if len(sub) < 2 {
				continue
			}
			out = append(out, wcand{desc: phiName(g) + " = 0 or " + names(sub) + " <= width", guard: g, sum: sub})
		}
	}
	for _, s := range L.strs {
		for _, n := range L.ints {
			out = append(out, wcand{desc: "visible(" + strName(s) + ") <= " + phiName(n), str: s, sum: []*ssa.Phi{n}})
			out = append(out, wcand{desc: "visible(" + strName(s) + ") >= " + phiName(n), str: s, strLo: true, sum: []*ssa.Phi{n}})
		}
	}
	return out
}

// claim: the form whose non-negativity is the candidate (without its guard),
// with integer phis evaluated by ev and string phis by evs.
func (L *wloop) claim(cd wcand, ev func(*ssa.Phi) linForm, evs func(ssa.Value, bool) linForm) linForm {
	sum := newLin()
	for _, p := range cd.sum {
		sum = sum.add(ev(p), 1)
	}
	switch {
	case cd.lower:
		return sum
	case cd.str != nil && cd.strLo:
		return evs(cd.str, true).add(sum, -1)
	case cd.str != nil:
		return sum.add(evs(cd.str, false), -1)
	default:
		return L.widthForm().add(sum, -1)
	}
}

// wpath: one path from the header, prepared for reasoning.
type wpath struct {
	pf     pathFacts
	w      *wctx
	splits [][2]linForm // a != b facts: a-b-1 >= 0 or b-a-1 >= 0
}

func (L *wloop) prepare(pf pathFacts, trimLast bool) *wpath {
	blocks := pf.blocks
	if trimLast && len(blocks) > 1 && blocks[len(blocks)-1] == L.H {
		blocks = blocks[:len(blocks)-1]
	}
	lc := newLcPath(L.P, L.fn, pathFacts{blocks: blocks, facts: pf.facts})
	lc.assume(lcGE(L.widthForm(), 1))
	lc.useFacts()
	wp := &wpath{pf: pf, w: &wctx{L: L, lc: lc}}
	for _, f := range pf.facts {
		if cmp, ok := f.Cmp(); ok && cmp.Op == token.NEQ && isInteger(cmp.X.Type()) {
			a, b := lc.num(cmp.X), lc.num(cmp.Y)
			wp.splits = append(wp.splits, [2]linForm{lcGE(a.add(b, -1), 1), lcGE(b.add(a, -1), 1)})
		}
	}
	return wp
}

// cases enumerates the hypothesis sets of a path under the invariant `alive`:
// the plain survivors as facts about the state at the header, a three-way split
// on the guard of every disjunctive survivor, a two-way split on every != fact.
func (L *wloop) cases(wp *wpath, alive []wcand, visit func(hyps []linForm)) {
	lc := wp.w.lc
	pre := func(p *ssa.Phi) linForm { return lc.num(p) }
	pres := func(p ssa.Value, lo bool) linForm {
		if lo {
			return wp.w.headSym(p).lo
		}
		return wp.w.headSym(p).suf
	}
	base := append([]linForm{}, lc.hyps...)
	var guards []*ssa.Phi
	seen := map[*ssa.Phi]bool{}
	for _, cd := range alive {
		if cd.guard == nil {
			base = append(base, L.claim(cd, pre, pres))
		} else if !seen[cd.guard] {
			seen[cd.guard] = true
			guards = append(guards, cd.guard)
		}
	}
	// re-read hyps: val() may have registered symbols, not hypotheses
	var rec func(gi int, hyps []linForm, state map[*ssa.Phi]int)
	var recSplit func(si int, hyps []linForm)
	recSplit = func(si int, hyps []linForm) {
		if !lpFeasible(hyps, lc.unsigned) {
			return
		}
		if si == len(wp.splits) {
			visit(hyps)
			return
		}
		for k := 0; k < 2; k++ {
			recSplit(si+1, append(append([]linForm{}, hyps...), wp.splits[si][k]))
		}
	}
	rec = func(gi int, hyps []linForm, state map[*ssa.Phi]int) {
		if gi == len(guards) {
			h := append([]linForm{}, hyps...)
			for _, cd := range alive {
				if cd.guard != nil && state[cd.guard] != 0 {
					h = append(h, L.claim(cd, pre, pres))
				}
			}
			recSplit(0, h)
			return
		}
		g := pre(guards[gi])
		for k := -1; k <= 1; k++ {
			h := append([]linForm{}, hyps...)
			switch k {
			case 0:
				h = append(h, g, newLin().add(g, -1))
			case 1:
				h = append(h, lcGE(g, 1))
			case -1:
				h = append(h, lcGE(newLin().add(g, -1), 1))
			}
			if !lpFeasible(h, lc.unsigned) {
				continue
			}
			state[guards[gi]] = k
			rec(gi+1, h, state)
		}
	}
	rec(0, base, map[*ssa.Phi]int{})
}

func (L *wloop) backEdgeValue(ph *ssa.Phi, from *ssa.BasicBlock) ssa.Value {
	for k, p := range L.H.Preds {
		if p == from {
			return ph.Edges[k]
		}
	}
	return nil
}

// infer: the strongest inductive invariant in the family.
func (L *wloop) infer(loopPaths []pathFacts) (alive []wcand, log []string) {
	alive = L.candidates()
	// initiation: on the entry edge
	{
		lc := newLcPath(L.P, L.fn, pathFacts{blocks: []*ssa.BasicBlock{L.entry, L.H}})
		lc.assume(lcGE(L.widthForm(), 1))
		w := &wctx{L: L, lc: lc}
		ev := func(p *ssa.Phi) linForm { return lc.num(L.backEdgeValue(p, L.entry)) }
		evs := func(p ssa.Value, lo bool) linForm {
			if B, ok := p.(*ssa.Alloc); ok {
				// empty unless something is written to it before the loop
				for _, r := range refs(B) {
					if _, m, _ := builderOp(r); m != "" && m != "String" && m != "Len" && !L.inLoop[r.Block()] {
						lc.problem("the builder %s is written before the loop at %s", B.Comment, L.P.InstrPos(r))
					}
				}
				return linConst(0)
			}
			v := w.val(L.backEdgeValue(p.(*ssa.Phi), L.entry), 0)
			if lo {
				return v.lo
			}
			return v.suf
		}
		var keep []wcand
		for _, cd := range alive {
			ok := false
			if cd.guard != nil {
				g := ev(cd.guard)
				ok = lpImplies(lc.hyps, g, lc.unsigned) && lpImplies(lc.hyps, newLin().add(g, -1), lc.unsigned)
			}
			if !ok {
				ok = lpImplies(lc.hyps, L.claim(cd, ev, evs), lc.unsigned) && len(lc.problems) == 0
			}
			if ok {
				keep = append(keep, cd)
			} else {
				log = append(log, "not on entry: "+cd.desc)
			}
		}
		alive = keep
	}
	// which string phis receive line feeds from the code
	for _, s := range L.strs {
		lcx := newLcPath(L.P, L.fn, pathFacts{blocks: []*ssa.BasicBlock{L.H}})
		wx := &wctx{L: L, lc: lcx}
		switch x := s.(type) {
		case *ssa.Phi:
			for k := range L.H.Preds {
				if resetsAnywhere(wx, x.Edges[k], map[ssa.Value]bool{}) {
					L.lastKind[s] = true
				}
			}
		case *ssa.Alloc:
			for _, r := range refs(x) {
				_, m, call := builderOp(r)
				switch m {
				case "WriteString":
					if resetsAnywhere(wx, call.Call.Args[1], map[ssa.Value]bool{}) {
						L.lastKind[s] = true
					}
				case "WriteByte", "WriteRune":
					if k, ok := constInt(call.Call.Args[1]); !ok || k == '\n' {
						L.lastKind[s] = true
					}
				}
			}
		}
	}
	// consecution to a fixpoint
	for round := 0; round < 64; round++ {
		dropped := map[int]bool{}
		for _, pf := range loopPaths {
			wp := L.prepare(pf, true)
			last := wp.w.lc.blocks[len(wp.w.lc.blocks)-1]
			lc := wp.w.lc
			post := func(p *ssa.Phi) linForm { return lc.num(L.backEdgeValue(p, last)) }
			posts := func(p ssa.Value, lo bool) linForm {
				var v wval
				if B, ok := p.(*ssa.Alloc); ok {
					v = wp.w.builderState(B, nil)
				} else {
					v = wp.w.val(L.backEdgeValue(p.(*ssa.Phi), last), 0)
				}
				if lo {
					return v.lo
				}
				return v.suf
			}
			// evaluate once (registers symbols and problems)
			claims := make([]linForm, len(alive))
			guardsPost := make([]linForm, len(alive))
			for i, cd := range alive {
				claims[i] = L.claim(cd, post, posts)
				if cd.guard != nil {
					guardsPost[i] = post(cd.guard)
				}
			}
			L.cases(wp, alive, func(hyps []linForm) {
				for i, cd := range alive {
					if dropped[i] {
						continue
					}
					ok := false
					if cd.guard != nil {
						g := guardsPost[i]
						ok = lpImplies(hyps, g, lc.unsigned) && lpImplies(hyps, newLin().add(g, -1), lc.unsigned)
					}
					if !ok {
						ok = lpImplies(hyps, claims[i], lc.unsigned)
					}
					if !ok {
						dropped[i] = true
						log = append(log, fmt.Sprintf("not preserved round the loop through lines %s: %s", pathLines(L.P, pf), cd.desc))
					}
				}
			})
		}
		if len(dropped) == 0 {
			break
		}
		var keep []wcand
		for i, cd := range alive {
			if !dropped[i] {
				keep = append(keep, cd)
			}
		}
		alive = keep
	}
	return alive, log
}

// resetsAnywhere: the value can contain a line feed put there by a constant.
func resetsAnywhere(w *wctx, v ssa.Value, seen map[ssa.Value]bool) bool {
	if v == nil || seen[v] {
		return false
	}
	seen[v] = true
	switch x := v.(type) {
	case *ssa.Const:
		if s, ok := constString(x); ok {
			return strings.Contains(s, "\n")
		}
	case *ssa.BinOp:
		return resetsAnywhere(w, x.X, seen) || resetsAnywhere(w, x.Y, seen)
	case *ssa.Call:
		if B, m, _ := builderOp(x); B != nil && m == "String" {
			return w.L.lastKind[B]
		}
	case *ssa.Phi:
		if x.Block() == w.L.H {
			return false
		}
		for _, e := range x.Edges {
			if resetsAnywhere(w, e, seen) {
				return true
			}
		}
	}
	return false
}

// a goal site: a point where a line is completed or extended
type wsite struct {
	instr ssa.Instruction
	block *ssa.BasicBlock
	// for an appended element: the element; for a concatenation: the BinOp
	elem    ssa.Value
	cat     *ssa.BinOp
	ret     *ssa.Return // mode "pad": the returned text's last line
	write   *ssa.Call   // a Write* call on builder
	builder *ssa.Alloc
}

// goalSites: from what the function returns.
func (L *wloop) goalSites() (sites []wsite, kind string, problems []string) {
	seenV := map[ssa.Value]bool{}
	var walkSlice func(v ssa.Value)
	var walkSpine func(v ssa.Value)
	walkSlice = func(v ssa.Value) {
		if seenV[v] {
			return
		}
		seenV[v] = true
		switch x := v.(type) {
		case *ssa.Phi:
			for _, e := range x.Edges {
				walkSlice(e)
			}
		case *ssa.Slice:
			// the empty literal []string{}
			if al, ok := x.X.(*ssa.Alloc); ok && arrayLen(al) == 0 {
				return
			}
			problems = append(problems, "the joined slice starts from something else than an empty slice at "+L.P.Pos(x.Pos()))
		case *ssa.Const:
			if x.Value == nil {
				return
			}
		case *ssa.MakeSlice:
			if k, ok := constInt(x.Len); ok && k == 0 {
				return
			}
			problems = append(problems, "the joined slice is made with a length at "+L.P.Pos(x.Pos()))
		case *ssa.Call:
			if b, ok := x.Call.Value.(*ssa.Builtin); ok && b.Name() == "append" && len(x.Call.Args) == 2 {
				walkSlice(x.Call.Args[0])
				elems, ok := variadicElements(x.Call.Args[1])
				if !ok {
					problems = append(problems, "append of something else than single lines at "+L.P.InstrPos(x))
					return
				}
				for _, e := range elems {
					sites = append(sites, wsite{instr: x, block: x.Block(), elem: e})
				}
				return
			}
			problems = append(problems, "the joined slice comes from a call at "+L.P.InstrPos(x))
		default:
			problems = append(problems, "the joined slice comes from "+v.String())
		}
	}
	walkSpine = func(v ssa.Value) {
		if seenV[v] {
			return
		}
		seenV[v] = true
		switch x := v.(type) {
		case *ssa.Phi:
			for _, e := range x.Edges {
				walkSpine(e)
			}
		case *ssa.Const:
		case *ssa.BinOp:
			if x.Op == token.ADD {
				sites = append(sites, wsite{instr: x, block: x.Block(), cat: x})
				walkSpine(x.X)
				return
			}
			problems = append(problems, "unexpected string operation at "+L.P.InstrPos(x))
		default:
			problems = append(problems, "the result is built from "+v.String()+", which is not followed")
		}
	}
	nRet := 0
	eachInstr(L.fn, func(_ *ssa.BasicBlock, _ int, in ssa.Instruction) {
		ret, ok := in.(*ssa.Return)
		if !ok || len(ret.Results) != 1 {
			return
		}
		nRet++
		v := ret.Results[0]
		if call, ok := v.(*ssa.Call); ok && isLibCall(&call.Call, "strings", "", "Join") {
			if sep, ok := constString(call.Call.Args[1]); ok && sep == "\n" {
				kind = "lines joined with line feeds"
				walkSlice(call.Call.Args[0])
				return
			}
		}
		if kind == "" {
			kind = "one accumulated string"
		}
		if B, m, _ := builderOp(v.(ssa.Instruction)); B != nil && m == "String" && L.builders[B] {
			kind = "one string accumulated in a strings.Builder"
			if !seenV[B] {
				seenV[B] = true
				for _, r := range refs(B) {
					if _, m2, call := builderOp(r); strings.HasPrefix(m2, "Write") {
						sites = append(sites, wsite{instr: call, block: call.Block(), write: call, builder: B})
					}
				}
			}
			return
		}
		walkSpine(v)
	})
	if nRet == 0 {
		problems = append(problems, "no return found")
	}
	return
}

func arrayLen(al *ssa.Alloc) int64 {
	if arr, ok := deref(al.Type()).Underlying().(interface{ Len() int64 }); ok {
		return arr.Len()
	}
	return -1
}

// variadicElements: the values stored into the slots of a `new [n]T` sliced whole.
func variadicElements(v ssa.Value) ([]ssa.Value, bool) {
	sl, ok := v.(*ssa.Slice)
	if !ok || sl.Low != nil || sl.High != nil {
		return nil, false
	}
	al, ok := sl.X.(*ssa.Alloc)
	if !ok {
		return nil, false
	}
	n := arrayLen(al)
	if n < 0 {
		return nil, false
	}
	out := make([]ssa.Value, n)
	for _, r := range refs(al) {
		ia, ok := r.(*ssa.IndexAddr)
		if !ok {
			continue
		}
		k, ok := constInt(ia.Index)
		if !ok || k < 0 || k >= n {
			return nil, false
		}
		for _, rr := range refs(ia) {
			if st, ok := rr.(*ssa.Store); ok && st.Addr == ssa.Value(ia) {
				if out[k] != nil {
					return nil, false
				}
				out[k] = st.Val
			}
		}
	}
	for _, e := range out {
		if e == nil {
			return nil, false
		}
	}
	return out, true
}

func c13Width(c *Ctx, name string) { c13Loop(c, name, "upper") }

// c13Loop: mode "upper": no completed line is wider than the width; mode "pad":
// every completed line is at least as wide as the width, and exactly that wide
// where padding was added.
func c13Loop(c *Ctx, name, mode string) {
	P := c.P
	fn := P.FuncOpt("servitor/ansi", name)
	if fn == nil {
		c.bad("servitor/ansi."+name, "ansi", "servitor/ansi", "ansi."+name+" not found")
		return
	}
	fname := FuncName(fn)
	pos := P.Pos(fn.Pos())
	L, why := findWrapLoop(P, fn)
	if !c.check(L != nil, fname+"/loop", pos, fname, "one loop over the matches of ansi.expand, one width parameter", "the shape of "+name+" is not one the width analysis follows ("+why+"): that no line exceeds the width cannot be established") {
		return
	}
	loopPaths, complete := enumeratePathsFrom(fn, L.H, L.H, 4096)
	if !c.check(complete && len(loopPaths) > 0, fname+"/loop-paths", pos, fname, fmt.Sprintf("%d acyclic paths round the loop", len(loopPaths)), "the paths round the loop could not be enumerated") {
		return
	}
	alive, log := L.infer(loopPaths)
	var inv []string
	for _, cd := range alive {
		inv = append(inv, cd.desc)
	}
	c.info(name+"_invariant", strings.Join(inv, "; "))
	c.info(name+"_dropped_candidates", len(log))
	sites, kind, problems := L.goalSites()
	c.info(name+"_result_kind", kind)
	if !c.check(len(problems) == 0 && len(sites) > 0, fname+"/result-shape", pos, fname, fmt.Sprintf("%s; %d points where a line is completed or extended", kind, len(sites)), "how "+name+" builds its result is not followed ("+strings.Join(problems, "; ")+"): that no line exceeds the width cannot be established") {
		return
	}
	// all paths from the header: round the loop, and out of it to every return
	allPaths := append([]pathFacts{}, loopPaths...)
	for _, b := range fn.Blocks {
		if len(b.Instrs) == 0 {
			continue
		}
		if _, isRet := b.Instrs[len(b.Instrs)-1].(*ssa.Return); isRet {
			ps, ok := enumeratePathsFrom(fn, L.H, b, 4096)
			if !ok {
				c.bad(fname+"/exit-paths", pos, fname, "the paths out of the loop could not be enumerated")
				return
			}
			allPaths = append(allPaths, ps...)
		}
	}
	if mode == "pad" {
		// the last line: what is returned
		eachInstr(fn, func(_ *ssa.BasicBlock, _ int, in ssa.Instruction) {
			if ret, ok := in.(*ssa.Return); ok && len(ret.Results) == 1 {
				sites = append(sites, wsite{instr: ret, block: ret.Block(), ret: ret})
			}
		})
	}
	for si, site := range sites {
		covered := 0
		okAll := true
		whyNot := ""
		for _, pf := range allPaths {
			on := false
			trim := len(pf.blocks) > 1 && pf.blocks[len(pf.blocks)-1] == L.H
			for i, b := range pf.blocks {
				if b == site.block && !(trim && i == len(pf.blocks)-1) {
					on = true
				}
			}
			if !on {
				continue
			}
			wp := L.prepare(pf, trim)
			w, lc := wp.w, wp.w.lc
			var goals []wneed
			if site.ret != nil {
				v := w.val(site.ret.Results[0], 0)
				goals = append(goals, wneed{v.lo.add(L.widthForm(), -1), "the last line of the result [at least]"})
			} else if site.elem != nil {
				v := w.val(site.elem, 0)
				goals = append(goals, wneed{L.widthForm().add(v.suf, -1), "the appended line"})
				if v.reset {
					goals = append(goals, wneed{L.widthForm().add(v.pre, -1), "the first line of the appended text"})
				}
			} else {
				var a, b wval
				if site.write != nil {
					_, m, _ := builderOp(site.write)
					a = w.builderState(site.builder, site.write)
					var okW bool
					b, okW = w.written(m, site.write)
					if !okW {
						lc.problem("the builder operation %s at %s is not followed", m, P.InstrPos(site.write))
					}
				} else {
					a, b = w.val(site.cat.X, 0), w.val(site.cat.Y, 0)
				}
				switch {
				case mode == "pad" && b.reset:
					goals = append(goals, wneed{a.lo.add(b.preLo, 1).add(L.widthForm(), -1), "the line completed here [at least]"})
					if b.pad {
						goals = append(goals, wneed{L.widthForm().add(a.suf.add(b.pre, 1), -1), "the padded line completed here"})
					}
				case mode == "pad" && b.pad:
					goals = append(goals, wneed{a.lo.add(b.lo, 1).add(L.widthForm(), -1), "the padded last line [at least]"})
					goals = append(goals, wneed{L.widthForm().add(a.suf.add(b.suf, 1), -1), "the padded last line"})
				case mode == "pad":
					// a line being extended: nothing is promised yet
				case b.reset:
					goals = append(goals, wneed{L.widthForm().add(a.suf.add(b.pre, 1), -1), "the line completed here"})
					goals = append(goals, wneed{L.widthForm().add(b.suf, -1), "the line begun here"})
				default:
					goals = append(goals, wneed{L.widthForm().add(a.suf.add(b.suf, 1), -1), "the line extended here"})
				}
			}
			goals = append(goals, w.need...)
			if len(lc.problems) > 0 {
				okAll, whyNot = false, lc.problems[0]
				break
			}
			nCases := 0
			L.cases(wp, alive, func(hyps []linForm) {
				nCases++
				for _, g := range goals {
					if okAll && !lpImplies(hyps, g.g, lc.unsigned) {
						okAll = false
						rel := "at most"
						if strings.HasSuffix(g.what, " [at least]") {
							rel = "at least"
						}
						whyNot = fmt.Sprintf("%s is not known to have %s `%s` visible characters on the path through lines %s (what is known at the loop head: %s)", strings.TrimSuffix(g.what, " [at least]"), rel, L.width.Name(), pathLines(P, pf), strings.Join(inv, "; "))
					}
				}
			})
			covered++
			if !okAll {
				break
			}
		}
		if covered == 0 && okAll {
			okAll, whyNot = false, "the point is on no analysed path (it lies before the loop)"
		}
		okText := fmt.Sprintf("within the width on all %d paths through it", covered)
		if mode == "pad" {
			okText = fmt.Sprintf("a completed line is at least the width, exactly the width where padding was added, on all %d paths through it", covered)
		}
		c.check(okAll, fmt.Sprintf("%s/line#%d", fname, si), P.InstrPos(site.instr), fname, okText, whyNot)
	}
}

// ---------------------------------------------------------------- R4, R5
//
// Content of the three simple layout loops (DumbWrap, Pad, Indent): every trip
// round the loop appends to the one accumulator, in order, any amount of
// inserted material (constants, padding, the prefix) and the content of the
// current match exactly once — its whole text match[0] when the character is
// not a line feed, a line feed when it is. Together with "the loop visits the
// matches of expand(text) in ascending order" and "the accumulator only grows at
// its end" this is: every character is kept, with its escape sequences, in the
// original order, and every line break is kept.

type contentLoop struct {
	L   *wloop
	acc ssa.Value // the accumulator: a string phi of the header, or a builder
}

func findContentLoop(P *Program, fn *ssa.Function) (*contentLoop, string) {
	L, why := findWrapLoopAnyParams(P, fn)
	if L == nil {
		return nil, why
	}
	// the accumulator: what the returns hand out
	var acc ssa.Value
	bad := ""
	seen := map[ssa.Value]bool{}
	var walk func(v ssa.Value)
	walk = func(v ssa.Value) {
		if seen[v] || bad != "" {
			return
		}
		seen[v] = true
		switch x := v.(type) {
		case *ssa.Phi:
			if x.Block() == L.H {
				if acc != nil && acc != v {
					bad = "more than one accumulator"
				}
				acc = v
				return
			}
			for _, e := range x.Edges {
				walk(e)
			}
		case *ssa.BinOp:
			if x.Op == token.ADD {
				walk(x.X)
				return
			}
			bad = "unexpected string operation at " + P.InstrPos(x)
		case *ssa.Const:
		case *ssa.Call:
			if B, m, _ := builderOp(x); B != nil && m == "String" && L.builders[B] {
				if acc != nil && acc != ssa.Value(B) {
					bad = "more than one accumulator"
				}
				acc = B
				return
			}
			bad = "the result comes from a call at " + P.InstrPos(x)
		default:
			bad = "the result is built from " + v.String()
		}
	}
	eachInstr(fn, func(_ *ssa.BasicBlock, _ int, in ssa.Instruction) {
		if ret, ok := in.(*ssa.Return); ok && len(ret.Results) == 1 {
			walk(ret.Results[0])
		}
	})
	if bad != "" {
		return nil, bad
	}
	if acc == nil {
		return nil, "no accumulator carried round the loop"
	}
	return &contentLoop{L: L, acc: acc}, ""
}

// findWrapLoopAnyParams: as findWrapLoop, without the demand for exactly one
// integer parameter (Indent has none).
func findWrapLoopAnyParams(P *Program, fn *ssa.Function) (*wloop, string) {
	L, why := findWrapLoop(P, fn)
	if L != nil || !(strings.Contains(why, "width parameter") || strings.Contains(why, "integer parameter")) {
		return L, why
	}
	return findWrapLoopOpt(P, fn, false)
}

// chunkLeaves: what one path appends to the accumulator, as leaves in order.
func (cl *contentLoop) chunkLeaves(lc *lcPath, last *ssa.BasicBlock) (out []ssa.Value, ok bool, why string) {
	L := cl.L
	var flat func(v ssa.Value, d int) []ssa.Value
	flat = func(v ssa.Value, d int) []ssa.Value {
		if _, _, isPiece := pieceIndex(L, v); isPiece {
			return []ssa.Value{v}
		}
		v = lc.at(v)
		if b, isAdd := v.(*ssa.BinOp); isAdd && b.Op == token.ADD && d < 64 {
			return append(flat(b.X, d+1), flat(b.Y, d+1)...)
		}
		return []ssa.Value{v}
	}
	switch acc := cl.acc.(type) {
	case *ssa.Phi:
		var edge ssa.Value
		if last == nil {
			return nil, false, "no back edge"
		}
		edge = L.backEdgeValue(acc, last)
		ls := flat(edge, 0)
		if len(ls) == 0 || ls[0] != ssa.Value(acc) {
			return nil, false, "the accumulator is not extended at its end (what was collected so far is dropped or moved)"
		}
		for _, l := range ls[1:] {
			if l == ssa.Value(acc) {
				return nil, false, "the accumulator is appended to itself"
			}
		}
		return ls[1:], true, ""
	case *ssa.Alloc:
		for _, b := range lc.blocks {
			for _, in := range b.Instrs {
				B, m, call := builderOp(in)
				if B != acc {
					continue
				}
				switch m {
				case "WriteString":
					out = append(out, flat(call.Call.Args[1], 0)...)
				case "WriteByte", "WriteRune":
					out = append(out, call.Call.Args[1])
				case "String", "Len", "Grow", "Cap":
				default:
					return nil, false, "builder operation " + m + " at " + L.P.InstrPos(in)
				}
			}
		}
		return out, true, ""
	}
	return nil, false, "unknown accumulator"
}

// pieceIndex: v is element k of the match at index idx of an expand result.
func pieceIndex(L *wloop, v ssa.Value) (k int64, idx ssa.Value, ok bool) {
	k, ok = L.matchPiece(v)
	if !ok {
		return 0, nil, false
	}
	var base ssa.Value
	switch x := v.(type) {
	case *ssa.UnOp:
		base = x.X.(*ssa.IndexAddr).X
	case *ssa.Index:
		base = x.X
	}
	switch b := base.(type) {
	case *ssa.UnOp:
		if ia, isIA := b.X.(*ssa.IndexAddr); isIA {
			return k, ia.Index, true
		}
	case *ssa.Index:
		return k, b.Index, true
	}
	return k, nil, true
}

// loopIndex: the value that indexes the matches in ascending order: phi+1 of a
// range loop, or a header phi that starts at 0 and grows by 1 on every back edge.
func (L *wloop) isLoopIndex(idx ssa.Value) bool {
	if bo, ok := idx.(*ssa.BinOp); ok && bo.Op == token.ADD {
		if ph, ok := bo.X.(*ssa.Phi); ok && ph.Comment == "rangeindex" && ph.Block() == L.H {
			k, isC := constInt(bo.Y)
			return isC && k == 1
		}
	}
	ph, ok := idx.(*ssa.Phi)
	if !ok || ph.Block() != L.H {
		return false
	}
	for i, p := range L.H.Preds {
		e := ph.Edges[i]
		if p == L.entry {
			if k, isC := constInt(e); !isC || k != 0 {
				return false
			}
			continue
		}
		bo, ok := e.(*ssa.BinOp)
		if !ok || bo.Op != token.ADD || bo.X != ssa.Value(ph) {
			return false
		}
		if k, isC := constInt(bo.Y); !isC || k != 1 {
			return false
		}
	}
	return true
}

func c13Content(c *Ctx) {
	P := c.P
	for _, name := range []string{"DumbWrap", "Pad", "Indent"} {
		fn := P.FuncOpt("servitor/ansi", name)
		if fn == nil {
			c.bad("servitor/ansi."+name, "ansi", "servitor/ansi", "ansi."+name+" not found")
			continue
		}
		fname := FuncName(fn)
		pos := P.Pos(fn.Pos())
		cl, why := findContentLoop(P, fn)
		if !c.check(cl != nil, fname+"/content-loop", pos, fname, "one loop over the matches of expand(text) appending to one accumulator", "the shape of "+name+" is not one the content analysis follows ("+why+"): that every character is kept in order cannot be established") {
			continue
		}
		L := cl.L
		// the matches are those of the text parameter itself
		okText := false
		for call := range L.expand {
			if cc, ok := call.(*ssa.Call); ok && unwrapLoad(cc.Call.Args[0]) == ssa.Value(fn.Params[0]) {
				okText = true
			}
		}
		c.check(okText && len(L.expand) == 1, fname+"/whole-text", pos, fname, "walks the matches of its own text", name+" does not walk ansi.expand of its own text parameter (and only that)")
		loopPaths, complete := enumeratePathsFrom(fn, L.H, L.H, 4096)
		if !c.check(complete && len(loopPaths) > 0, fname+"/content-paths", pos, fname, fmt.Sprintf("%d acyclic paths round the loop", len(loopPaths)), "the paths round the loop could not be enumerated") {
			continue
		}
		for pi, pf := range loopPaths {
			blocks := pf.blocks[:len(pf.blocks)-1]
			lc := newLcPath(P, fn, pathFacts{blocks: blocks, facts: pf.facts})
			last := blocks[len(blocks)-1]
			ls, ok, whyNot := cl.chunkLeaves(lc, last)
			where := "path through lines " + pathLines(P, pf)
			if !ok {
				c.bad(fmt.Sprintf("%s/content#%d", fname, pi), pos, fname, name+": "+whyNot+" ("+where+")")
				continue
			}
			// what the path knows about the current character
			isNL, known := false, false
			for _, f := range pf.facts {
				cmp, isCmp := f.Cmp()
				if !isCmp || (cmp.Op != token.EQL && cmp.Op != token.NEQ) {
					continue
				}
				for _, side := range [][2]ssa.Value{{cmp.X, cmp.Y}, {cmp.Y, cmp.X}} {
					if s, isS := constString(side[1]); !isS || s != "\n" {
						continue
					}
					if k, idx, isP := pieceIndex(L, side[0]); isP && k == 2 && idx != nil && L.isLoopIndex(idx) {
						known, isNL = true, cmp.Op == token.EQL
					}
				}
			}
			full, newlines, foreign := 0, 0, ""
			for _, l := range ls {
				if k, idx, isP := pieceIndex(L, l); isP {
					switch {
					case idx == nil || !L.isLoopIndex(idx):
						foreign = "a piece of another match than the current one is appended"
					case k == 0:
						full++
					case k == 2 && known && isNL:
						newlines++ // the character itself, known to be the line feed
					default:
						foreign = fmt.Sprintf("element %d of the match is appended instead of the whole match: its escape sequences are dropped or torn apart", k)
					}
					continue
				}
				if s, isS := constString(l); isS {
					newlines += strings.Count(s, "\n")
					continue
				}
				if k, isC := constInt(l); isC {
					if k == '\n' {
						newlines++
					}
					continue
				}
			}
			okPath, reason := true, ""
			switch {
			case foreign != "":
				okPath, reason = false, foreign
			case known && isNL:
				if full != 0 || newlines < 1 {
					okPath, reason = false, fmt.Sprintf("on the path where the character is a line feed, %d line feeds and %d whole matches are appended (the line break must be kept, once)", newlines, full)
				}
			default:
				if full != 1 {
					okPath, reason = false, fmt.Sprintf("the current match is appended %d times where exactly once is needed to keep every character", full)
				}
			}
			c.check(okPath, fmt.Sprintf("%s/content#%d", fname, pi), pos, fname, "appends the content of the current match exactly once ("+where+")", name+": "+reason+" ("+where+")")
		}
		// after the loop nothing of the text may be appended any more
		for _, b := range fn.Blocks {
			if len(b.Instrs) == 0 {
				continue
			}
			if _, isRet := b.Instrs[len(b.Instrs)-1].(*ssa.Return); !isRet {
				continue
			}
			ps, _ := enumeratePathsFrom(fn, L.H, b, 1024)
			for _, pf := range ps {
				for _, blk := range pf.blocks[1:] {
					for _, in := range blk.Instrs {
						for _, op := range in.Operands(nil) {
							if op == nil || *op == nil {
								continue
							}
							if _, _, isP := pieceIndex(L, *op); isP {
								if bo, isAdd := in.(*ssa.BinOp); isAdd && bo.Op == token.ADD {
									c.bad(fname+"/content-after-loop", P.InstrPos(in), fname, name+" appends a piece of a match after the loop")
								}
							}
						}
					}
				}
			}
		}
	}
}

// c13IndentShape: every line feed Indent emits is followed by the prefix, and
// the first line gets it exactly when includeFirst is set.
func c13IndentShape(c *Ctx) {
	P := c.P
	fn := P.FuncOpt("servitor/ansi", "Indent")
	if fn == nil || len(fn.Params) != 3 {
		c.bad("servitor/ansi.Indent", "ansi", "servitor/ansi", "ansi.Indent(text, prefix, includeFirst) not found")
		return
	}
	fname := FuncName(fn)
	pos := P.Pos(fn.Pos())
	prefix, includeFirst := ssa.Value(fn.Params[1]), ssa.Value(fn.Params[2])
	cl, why := findContentLoop(P, fn)
	if !c.check(cl != nil, fname+"/shape-loop", pos, fname, "one loop, one accumulator", "the shape of Indent is not followed ("+why+")") {
		return
	}
	L := cl.L
	loopPaths, _ := enumeratePathsFrom(fn, L.H, L.H, 4096)
	for pi, pf := range loopPaths {
		blocks := pf.blocks[:len(pf.blocks)-1]
		lc := newLcPath(P, fn, pathFacts{blocks: blocks, facts: pf.facts})
		ls, ok, whyNot := cl.chunkLeaves(lc, blocks[len(blocks)-1])
		where := "path through lines " + pathLines(P, pf)
		if !ok {
			c.bad(fmt.Sprintf("%s/prefix-after-line-feed#%d", fname, pi), pos, fname, whyNot+" ("+where+")")
			continue
		}
		okPath, reason := true, ""
		for i, l := range ls {
			s, isS := constString(l)
			if !isS || !strings.Contains(s, "\n") {
				// a whole match must be known not to be a line feed, or it would start a line without prefix
				if k, _, isP := pieceIndex(L, l); isP && k == 0 {
					known := false
					for _, f := range pf.facts {
						if cmp, isCmp := f.Cmp(); isCmp && cmp.Op == token.NEQ {
							for _, side := range [][2]ssa.Value{{cmp.X, cmp.Y}, {cmp.Y, cmp.X}} {
								if cs, isC := constString(side[1]); isC && cs == "\n" {
									if k2, _, isP2 := pieceIndex(L, side[0]); isP2 && k2 == 2 {
										known = true
									}
								}
							}
						}
					}
					if !known {
						okPath, reason = false, "a match that may be a line feed is copied as it is: the line it starts gets no prefix"
					}
				}
				continue
			}
			if !strings.HasSuffix(s, "\n") || strings.Count(s, "\n") != 1 || i+1 >= len(ls) || unwrapLoad(ls[i+1]) != prefix {
				okPath, reason = false, "a line feed is emitted that is not directly followed by the prefix"
			}
		}
		c.check(okPath, fmt.Sprintf("%s/prefix-after-line-feed#%d", fname, pi), pos, fname, "every line feed is followed by the prefix ("+where+")", "Indent: "+reason+" ("+where+")")
	}
	// the first line: the accumulator enters the loop as prefix exactly when includeFirst holds
	okFirst, whyFirst := false, "the accumulator does not enter the loop as `prefix` under includeFirst and empty otherwise"
	if ph, isPhi := cl.acc.(*ssa.Phi); isPhi {
		entry := L.backEdgeValue(ph, L.entry)
		if sel, isSel := entry.(*ssa.Phi); isSel && len(sel.Edges) == 2 {
			var withP, withE *ssa.BasicBlock
			for i, e := range sel.Edges {
				if unwrapLoad(e) == prefix {
					withP = sel.Block().Preds[i]
				} else if s, isS := constString(e); isS && s == "" {
					withE = sel.Block().Preds[i]
				}
			}
			if withP != nil && withE != nil {
				// withP is the block on the true edge of `if includeFirst`
				for _, b := range fn.Blocks {
					if iff, isIf := b.Instrs[len(b.Instrs)-1].(*ssa.If); isIf {
						pol, isTest := boolTestOf(iff.Cond, includeFirst)
						if !isTest {
							continue
						}
						yes, no := b.Succs[0], b.Succs[1]
						if !pol {
							yes, no = no, yes
						}
						if yes == withP && (b == withE || no == withE || no == sel.Block()) {
							okFirst = true
						}
					}
				}
			}
		}
	}
	if B, isB := cl.acc.(*ssa.Alloc); isB {
		// a builder: exactly one write before the loop, of the prefix, in the arm taken when includeFirst holds
		n := 0
		for _, r := range refs(B) {
			_, m, call := builderOp(r)
			if m == "" || m == "String" || m == "Len" || m == "Grow" || L.inLoop[r.Block()] {
				continue
			}
			n++
			blk := r.Block()
			if m == "WriteString" && unwrapLoad(call.Call.Args[1]) == prefix && len(blk.Preds) == 1 {
				pred := blk.Preds[0]
				if iff, isIf := pred.Instrs[len(pred.Instrs)-1].(*ssa.If); isIf {
					if pol, isTest := boolTestOf(iff.Cond, includeFirst); isTest {
						yes, no := pred.Succs[0], pred.Succs[1]
						if !pol {
							yes, no = no, yes
						}
						if yes == blk && no != blk {
							okFirst = true
						}
					}
				}
			}
		}
		if n != 1 {
			okFirst = false
		}
	}
	c.check(okFirst, fname+"/first-line", pos, fname, "the first line gets the prefix exactly when includeFirst is set", "Indent: "+whyFirst)
}

// ---------------------------------------------------------------- R6
//
// Content of ansi.Wrap. Wrap keeps the text it has read in buffers — the lines
// completed so far, the current line, the blanks after it, the word being read
// — and flushes them in that order at the end. The flush on the exit path that
// uses every buffer gives the *logical order* of the buffers. A trip round the
// loop preserves content if, with every buffer replaced by its new value, the
// buffers in logical order read: what they read before, followed by the current
// character — up to atoms that may be dropped or added freely: a buffer that
// is empty on this path (its counter is provably 0 and bounds it), a buffer
// that only ever holds blanks, the current character where the path knows it
// to be a blank, constants of blanks. The same comparison on every exit path
// shows that nothing is lost at the end. Equalities and counters come from the
// inductive invariant of R1.

type catom struct {
	kind string // "old", "cur", "const", "unknown"
	v    ssa.Value
	s    string
}

func (a catom) String() string {
	switch a.kind {
	case "old":
		return strName(a.v)
	case "cur":
		return "<char>"
	case "const":
		return fmt.Sprintf("%q", a.s)
	}
	return "?" + a.s
}

type wrapContent struct {
	L     *wloop
	slice *ssa.Phi // the lines completed so far
}

func (wc *wrapContent) seqString(lc *lcPath, v ssa.Value, d int) []catom {
	L := wc.L
	if d > 64 {
		return []catom{{kind: "unknown", s: "too deep"}}
	}
	if k, idx, ok := pieceIndex(L, v); ok {
		if k == 0 && idx != nil && L.isLoopIndex(idx) {
			return []catom{{kind: "cur"}}
		}
		return []catom{{kind: "unknown", s: fmt.Sprintf("element %d of a match", k)}}
	}
	v = lc.at(v)
	if k, idx, ok := pieceIndex(L, v); ok {
		if k == 0 && idx != nil && L.isLoopIndex(idx) {
			return []catom{{kind: "cur"}}
		}
		return []catom{{kind: "unknown", s: fmt.Sprintf("element %d of a match", k)}}
	}
	switch x := v.(type) {
	case *ssa.Phi:
		if x.Block() == L.H {
			return []catom{{kind: "old", v: x}}
		}
	case *ssa.Const:
		if s, ok := constString(x); ok {
			if s == "" {
				return nil
			}
			return []catom{{kind: "const", s: s}}
		}
	case *ssa.BinOp:
		if x.Op == token.ADD {
			return append(wc.seqString(lc, x.X, d+1), wc.seqString(lc, x.Y, d+1)...)
		}
	case *ssa.Call:
		if B, m, _ := builderOp(x); B != nil && m == "String" && L.builders[B] {
			return wc.builderSeq(lc, B, x)
		}
	}
	return []catom{{kind: "unknown", s: valueDesc(v)}}
}

// builderSeq: what builder B holds on the path just before `upto` (at the end
// of the path when upto is nil).
func (wc *wrapContent) builderSeq(lc *lcPath, B *ssa.Alloc, upto ssa.Instruction) []catom {
	cur := []catom{{kind: "old", v: B}}
	for _, b := range lc.blocks {
		for _, in := range b.Instrs {
			if in == upto {
				return cur
			}
			bb, m, call := builderOp(in)
			if bb != B {
				continue
			}
			switch m {
			case "Reset":
				cur = nil
			case "WriteString":
				cur = append(append([]catom{}, cur...), wc.seqString(lc, call.Call.Args[1], 0)...)
			case "WriteByte", "WriteRune":
				if k, ok := constInt(call.Call.Args[1]); ok {
					cur = append(append([]catom{}, cur...), catom{kind: "const", s: string(rune(k))})
				} else {
					cur = append(append([]catom{}, cur...), catom{kind: "unknown", s: "a computed character"})
				}
			case "String", "Len", "Grow", "Cap":
			default:
				cur = append(append([]catom{}, cur...), catom{kind: "unknown", s: "builder operation " + m})
			}
		}
	}
	return cur
}

func (wc *wrapContent) seqSlice(lc *lcPath, v ssa.Value, d int) []catom {
	if d > 32 {
		return []catom{{kind: "unknown", s: "too deep"}}
	}
	v = lc.at(v)
	switch x := v.(type) {
	case *ssa.Phi:
		if x == wc.slice {
			return []catom{{kind: "old", v: x}}
		}
	case *ssa.Const:
		if x.Value == nil {
			return nil
		}
	case *ssa.Slice:
		if al, ok := x.X.(*ssa.Alloc); ok && arrayLen(al) == 0 {
			return nil
		}
	case *ssa.Call:
		if b, ok := x.Call.Value.(*ssa.Builtin); ok && b.Name() == "append" && len(x.Call.Args) == 2 {
			out := wc.seqSlice(lc, x.Call.Args[0], d+1)
			elems, ok := variadicElements(x.Call.Args[1])
			if !ok {
				return append(out, catom{kind: "unknown", s: "append of a slice"})
			}
			for _, e := range elems {
				out = append(out, wc.seqString(lc, e, 0)...)
			}
			return out
		}
	}
	return []catom{{kind: "unknown", s: valueDesc(v)}}
}

// spaceFact: what the path knows about the current character being a blank
// (the result of unicode.IsSpace on the first rune of match[2] of the current match).
func (wc *wrapContent) spaceFact(pf pathFacts) (isSpace, known bool) {
	L := wc.L
	for _, f := range pf.facts {
		call, ok := f.Cond.(*ssa.Call)
		if !ok || !isLibCall(&call.Call, "unicode", "", "IsSpace") {
			continue
		}
		// the argument: ([]rune(letter))[0] or a decoded first rune of letter
		var fromLetter func(v ssa.Value, d int) bool
		fromLetter = func(v ssa.Value, d int) bool {
			if d > 6 || v == nil {
				return false
			}
			if k, idx, isP := pieceIndex(L, v); isP {
				return k == 2 && idx != nil && L.isLoopIndex(idx)
			}
			switch x := v.(type) {
			case *ssa.UnOp:
				return fromLetter(x.X, d+1)
			case *ssa.IndexAddr:
				if k, ok := constInt(x.Index); ok && k == 0 {
					return fromLetter(x.X, d+1)
				}
			case *ssa.Index:
				if k, ok := constInt(x.Index); ok && k == 0 {
					return fromLetter(x.X, d+1)
				}
			case *ssa.Convert:
				return fromLetter(x.X, d+1)
			case *ssa.Extract:
				if c2, ok := x.Tuple.(*ssa.Call); ok && x.Index == 0 && isLibCall(&c2.Call, "unicode/utf8", "", "DecodeRuneInString") {
					return fromLetter(c2.Call.Args[0], d+1)
				}
			}
			return false
		}
		if fromLetter(call.Call.Args[0], 0) {
			return f.Truth, true
		}
	}
	// letter == "\n" also says: a blank
	for _, f := range pf.facts {
		cmp, isCmp := f.Cmp()
		if !isCmp || cmp.Op != token.EQL {
			continue
		}
		for _, side := range [][2]ssa.Value{{cmp.X, cmp.Y}, {cmp.Y, cmp.X}} {
			if s, isS := constString(side[1]); isS && s == "\n" {
				if k, idx, isP := pieceIndex(L, side[0]); isP && k == 2 && idx != nil && L.isLoopIndex(idx) {
					return true, true
				}
			}
		}
	}
	return false, false
}

func blankString(s string) bool {
	return strings.TrimSpace(s) == ""
}

func c13WrapContent(c *Ctx) {
	P := c.P
	fn := P.FuncOpt("servitor/ansi", "Wrap")
	if fn == nil {
		c.bad("servitor/ansi.Wrap", "ansi", "servitor/ansi", "ansi.Wrap not found")
		return
	}
	fname := FuncName(fn)
	pos := P.Pos(fn.Pos())
	L, why := findWrapLoop(P, fn)
	if !c.check(L != nil, fname+"/content-loop", pos, fname, "one loop over the matches of expand(text) with string buffers", "the shape of Wrap is not one the content analysis follows ("+why+"): that every character is kept cannot be established") {
		return
	}
	wc := &wrapContent{L: L}
	for _, in := range L.H.Instrs {
		ph, ok := in.(*ssa.Phi)
		if !ok {
			break
		}
		if _, isSl := ph.Type().Underlying().(*types.Slice); isSl {
			if wc.slice != nil {
				c.bad(fname+"/content-buffers", pos, fname, "more than one slice is carried round the loop")
				return
			}
			wc.slice = ph
		}
	}
	loopPaths, complete := enumeratePathsFrom(fn, L.H, L.H, 4096)
	if wc.slice == nil || !complete || len(loopPaths) == 0 {
		c.bad(fname+"/content-buffers", pos, fname, "the buffers of Wrap (a slice of completed lines and strings carried round the loop) are not found")
		return
	}
	alive, _ := L.infer(loopPaths)
	// exit paths and the logical order of the buffers
	type exitPath struct {
		pf  pathFacts
		seq []catom
		wp  *wpath
	}
	var exits []exitPath
	for _, b := range fn.Blocks {
		if len(b.Instrs) == 0 {
			continue
		}
		ret, isRet := b.Instrs[len(b.Instrs)-1].(*ssa.Return)
		if !isRet || len(ret.Results) != 1 {
			continue
		}
		ps, _ := enumeratePathsFrom(fn, L.H, b, 1024)
		for _, pf := range ps {
			wp := L.prepare(pf, false)
			call, ok := ret.Results[0].(*ssa.Call)
			var seq []catom
			if ok && isLibCall(&call.Call, "strings", "", "Join") {
				seq = wc.seqSlice(wp.w.lc, call.Call.Args[0], 0)
			} else {
				seq = []catom{{kind: "unknown", s: "the result is not a Join of the completed lines"}}
			}
			exits = append(exits, exitPath{pf, seq, wp})
		}
	}
	var order []ssa.Value
	for _, e := range exits {
		var o []ssa.Value
		clean := true
		for _, a := range e.seq {
			if a.kind != "old" {
				clean = false
			} else {
				o = append(o, a.v)
			}
		}
		if clean && len(o) > len(order) {
			order = o
		}
	}
	want := 1 + len(L.strs)
	okOrder := len(order) == want && len(order) > 0 && order[0] == ssa.Value(wc.slice)
	seenV := map[ssa.Value]bool{}
	for _, v := range order {
		if seenV[v] {
			okOrder = false
		}
		seenV[v] = true
	}
	var names []string
	for _, v := range order {
		names = append(names, strName(v))
	}
	if !c.check(okOrder, fname+"/flush-order", pos, fname, "at the end the buffers are flushed in the order "+strings.Join(names, ", "), fmt.Sprintf("no exit path of Wrap flushes all %d buffers, each once, after the completed lines: the order in which the buffered text belongs cannot be read off", want)) {
		return
	}
	// buffers that only ever hold blanks
	blankOnly := map[ssa.Value]bool{}
	for _, s := range L.strs {
		blankOnly[s] = true
	}
	for changed := true; changed; {
		changed = false
		for _, s := range L.strs {
			if !blankOnly[s] {
				continue
			}
			ph, isPhi := s.(*ssa.Phi)
			for _, pf := range loopPaths {
				blocks := pf.blocks[:len(pf.blocks)-1]
				lc := newLcPath(P, fn, pathFacts{blocks: blocks, facts: pf.facts})
				isSp, known := wc.spaceFact(pf)
				var after []catom
				if isPhi {
					after = wc.seqString(lc, L.backEdgeValue(ph, blocks[len(blocks)-1]), 0)
				} else {
					after = wc.builderSeq(lc, s.(*ssa.Alloc), nil)
				}
				for _, a := range after {
					ok := false
					switch a.kind {
					case "old":
						ok = blankOnly[a.v]
					case "cur":
						ok = known && isSp
					case "const":
						ok = blankString(a.s)
					}
					if !ok && blankOnly[s] {
						blankOnly[s] = false
						changed = true
					}
				}
			}
			// on entry: empty or blank (a builder is not written before the loop: checked by R1's initiation)
			if isPhi {
				if s2, ok := constString(L.backEdgeValue(ph, L.entry)); !ok || !blankString(s2) {
					if blankOnly[s] {
						blankOnly[s] = false
						changed = true
					}
				}
			}
		}
	}
	var blanks []string
	for _, s := range L.strs {
		if blankOnly[s] {
			blanks = append(blanks, strName(s))
		}
	}
	c.info("Wrap_buffers_in_flush_order", strings.Join(names, ", "))
	c.info("Wrap_buffers_holding_blanks_only", strings.Join(blanks, ", "))

	// compare two atom sequences up to droppable atoms, under every case of the path
	render := func(as []catom) string {
		var out []string
		for _, a := range as {
			out = append(out, a.String())
		}
		return "[" + strings.Join(out, " ") + "]"
	}
	checkPath := func(key string, wp *wpath, pf pathFacts, got []catom, withCur bool, where string) {
		lc := wp.w.lc
		isSp, known := wc.spaceFact(pf)
		okAll, whyNot := true, ""
		nCases := 0
		L.cases(wp, alive, func(hyps []linForm) {
			nCases++
			if !okAll {
				return
			}
			empty := func(v ssa.Value) bool {
				if v == ssa.Value(wc.slice) {
					return false
				}
				sym := wp.w.headSym(v).suf
				return lpImplies(hyps, newLin().add(sym, -1), lc.unsigned)
			}
			drop := func(a catom) bool {
				switch a.kind {
				case "old":
					return blankOnly[a.v] || empty(a.v)
				case "cur":
					return known && isSp
				case "const":
					return blankString(a.s)
				}
				return false
			}
			var g, e []catom
			for _, a := range got {
				if a.kind == "unknown" {
					okAll, whyNot = false, "a buffer is built from something that is not followed ("+a.s+")"
					return
				}
				if !drop(a) {
					g = append(g, a)
				}
			}
			for _, v := range order {
				a := catom{kind: "old", v: v}
				if !drop(a) {
					e = append(e, a)
				}
			}
			if withCur && !(known && isSp) {
				e = append(e, catom{kind: "cur"})
			}
			same := len(g) == len(e)
			for i := 0; same && i < len(g); i++ {
				same = g[i].kind == e[i].kind && g[i].v == e[i].v
			}
			if !same {
				okAll = false
				whyNot = fmt.Sprintf("read in flush order the buffers hold %s afterwards where %s is what they held before%s (blank-only and provably empty buffers left out)", render(g), render(e), map[bool]string{true: " plus the current character", false: ""}[withCur && !(known && isSp)])
			}
		})
		okText := "no character is lost, duplicated or moved (" + where + ")"
		if nCases == 0 {
			okText = "the path cannot be taken in a state that satisfies the invariant (" + where + ")"
		}
		c.check(okAll, key, pos, fname, okText, "Wrap: "+whyNot+" ("+where+")")
	}
	for pi, pf := range loopPaths {
		wp := L.prepare(pf, true)
		lc := wp.w.lc
		last := lc.blocks[len(lc.blocks)-1]
		var got []catom
		for _, v := range order {
			switch x := v.(type) {
			case *ssa.Alloc:
				got = append(got, wc.builderSeq(lc, x, nil)...)
			case *ssa.Phi:
				if x == wc.slice {
					got = append(got, wc.seqSlice(lc, L.backEdgeValue(wc.slice, last), 0)...)
				} else {
					got = append(got, wc.seqString(lc, L.backEdgeValue(x, last), 0)...)
				}
			}
		}
		checkPath(fmt.Sprintf("%s/wrap-content#%d", fname, pi), wp, pf, got, true, "path through lines "+pathLines(P, pf))
	}
	for ei, e := range exits {
		checkPath(fmt.Sprintf("%s/wrap-flush#%d", fname, ei), e.wp, e.pf, e.seq, false, "exit through lines "+pathLines(P, e.pf))
	}
	// a line break in the text completes a line
	for pi, pf := range loopPaths {
		isNL := false
		for _, f := range pf.facts {
			if cmp, ok := f.Cmp(); ok && cmp.Op == token.EQL {
				for _, side := range [][2]ssa.Value{{cmp.X, cmp.Y}, {cmp.Y, cmp.X}} {
					if s, isS := constString(side[1]); isS && s == "\n" {
						if k, idx, isP := pieceIndex(L, side[0]); isP && k == 2 && idx != nil && L.isLoopIndex(idx) {
							isNL = true
						}
					}
				}
			}
		}
		if !isNL {
			continue
		}
		wp := L.prepare(pf, true)
		lc := wp.w.lc
		seq := wc.seqSlice(lc, L.backEdgeValue(wc.slice, lc.blocks[len(lc.blocks)-1]), 0)
		grown := false
		if call, ok := lc.at(L.backEdgeValue(wc.slice, lc.blocks[len(lc.blocks)-1])).(*ssa.Call); ok {
			if b, ok := call.Call.Value.(*ssa.Builtin); ok && b.Name() == "append" {
				grown = true
			}
		}
		_ = seq
		c.check(grown, fmt.Sprintf("%s/line-break-kept#%d", fname, pi), pos, fname, "a line feed in the text completes a line (path through lines "+pathLines(P, pf)+")", "Wrap: on the path where the character is a line feed no line is completed: the line break is lost (path through lines "+pathLines(P, pf)+")")
	}
	// a word is only cut where its counter has reached the width
	lineLike := order[1]
	for pi, pf := range loopPaths {
		wp := L.prepare(pf, true)
		lc := wp.w.lc
		last := lc.blocks[len(lc.blocks)-1]
		// elements appended on this path
		var elems []ssa.Value
		v := lc.at(L.backEdgeValue(wc.slice, last))
		for d := 0; d < 8; d++ {
			call, ok := v.(*ssa.Call)
			if !ok {
				break
			}
			b, ok := call.Call.Value.(*ssa.Builtin)
			if !ok || b.Name() != "append" {
				break
			}
			if es, ok := variadicElements(call.Call.Args[1]); ok {
				elems = append(elems, es...)
			}
			v = lc.at(call.Call.Args[0])
		}
		for _, el := range elems {
			elSeq := wc.seqString(lc, el, 0)
			hasLine := false
			for _, a := range elSeq {
				if a.kind == "old" && a.v == lineLike {
					hasLine = true
				}
			}
			if hasLine {
				continue // the current line is pushed, with whatever was joined to it
			}
			for _, a := range elSeq {
				if a.kind != "old" || blankOnly[a.v] {
					continue
				}
				// a buffer other than the current line is pushed as a line of its own
				okCut := false
				for _, cd := range alive {
					if okCut || cd.str != a.v || cd.strLo || cd.guard != nil || len(cd.sum) != 1 {
						continue
					}
					counter := cd.sum[0]
					okThis := true
					L.cases(wp, alive, func(hyps []linForm) {
						if !lpImplies(hyps, lc.num(counter).add(L.widthForm(), -1), lc.unsigned) {
							okThis = false
						}
					})
					okCut = okThis
				}
				c.check(okCut, fmt.Sprintf("%s/word-cut#%d", fname, pi), pos, fname, "the "+strName(a.v)+" buffer is pushed as a line of its own only where its counter has reached the width (path through lines "+pathLines(P, pf)+")", "Wrap: the "+strName(a.v)+" buffer is pushed as a line of its own on a path that does not know its counter to have reached the width: a word is cut although it would fit on a line (path through lines "+pathLines(P, pf)+")")
			}
		}
	}
}

// ---------------------------------------------------------------- R7
//
// ansi.Snip. (a) At most `height` lines: the loop walks an index i down from
// h-1 in steps of one, where h is min(len(lines), height); with len(kept)+i+1
// <= h as invariant (true on entry, preserved on every path round the loop
// because the index drops by one and the slice grows by at most one), at most h
// <= height lines are kept when the loop is left. (b) A prefix of the input:
// the lines are those of strings.Split(text, "\n"); what is kept in a trip is
// collapse of expand(lines[i]) — possibly without its last match — put in
// FRONT of what was kept before (the index runs downwards, so the result is in
// ascending order); a trip that keeps nothing happens only while nothing has
// been kept yet (trailing blank lines), so the kept lines are lines[0..k]
// without gaps. (c) The result is those lines joined with line feeds plus,
// possibly, the ellipsis parameter at the end.
func c13Snip(c *Ctx) {
	P := c.P
	fn := P.FuncOpt("servitor/ansi", "Snip")
	if fn == nil || len(fn.Params) != 4 {
		c.bad("servitor/ansi.Snip", "ansi", "servitor/ansi", "ansi.Snip(text, width, height, ellipsis) not found")
		return
	}
	fname := FuncName(fn)
	pos := P.Pos(fn.Pos())
	text, height, ellipsis := ssa.Value(fn.Params[0]), ssa.Value(fn.Params[2]), ssa.Value(fn.Params[3])
	// the loop: the one that carries a slice of strings round
	var H *ssa.BasicBlock
	nLoops := 0
	for b := range loopHeads(fn) {
		for _, in := range b.Instrs {
			ph, ok := in.(*ssa.Phi)
			if !ok {
				break
			}
			if sl, ok := ph.Type().Underlying().(*types.Slice); ok && isStringType(sl.Elem()) {
				H = b
				nLoops++
				break
			}
		}
	}
	if nLoops == 0 {
		c13SnipSliced(c, fn)
		return
	}
	if !c.check(nLoops == 1, fname+"/snip-loop", pos, fname, "one loop collects lines", fmt.Sprintf("%d loops in Snip collect lines where one walk over the lines is expected: that at most `height` lines forming a prefix of the text are returned cannot be established", nLoops)) {
		return
	}
	var entry *ssa.BasicBlock
	for _, p := range H.Preds {
		if !H.Dominates(p) {
			entry = p
		}
	}
	var idx, kept *ssa.Phi
	for _, in := range H.Instrs {
		ph, ok := in.(*ssa.Phi)
		if !ok {
			break
		}
		if isInteger(ph.Type()) {
			idx = ph
		}
		if sl, ok := ph.Type().Underlying().(*types.Slice); ok && isStringType(sl.Elem()) {
			kept = ph
		}
	}
	if !c.check(idx != nil && kept != nil && entry != nil, fname+"/snip-state", pos, fname, "an index and a slice of kept lines are carried round the loop", "the state of Snip's loop (an index and the kept lines) is not found") {
		return
	}
	edgeOf := func(ph *ssa.Phi, from *ssa.BasicBlock) ssa.Value {
		for k, p := range H.Preds {
			if p == from {
				return ph.Edges[k]
			}
		}
		return nil
	}
	// the lines: strings.Split(text, "\n")
	var lines ssa.Value
	eachInstr(fn, func(_ *ssa.BasicBlock, _ int, in ssa.Instruction) {
		if call, ok := in.(*ssa.Call); ok && isLibCall(&call.Call, "strings", "", "Split") {
			if s, ok := constString(call.Call.Args[1]); ok && s == "\n" && unwrapLoad(call.Call.Args[0]) == text {
				lines = call
			}
		}
	})
	c.check(lines != nil, fname+"/snip-lines", pos, fname, "the lines are strings.Split(text, \"\\n\")", "Snip does not take the lines of its own text parameter")
	if lines == nil {
		return
	}
	collapseFn := P.FuncOpt("servitor/ansi", "collapse")
	// the line kept in a trip: collapse(expand(lines[i])) or collapse(expand(lines[i])[:len-k])
	lineOfTrip := func(lc *lcPath, e ssa.Value, iPre linForm) (bool, string) {
		cc, okC := lc.at(e).(*ssa.Call)
		if !okC || cc.Call.StaticCallee() != collapseFn || collapseFn == nil {
			return false, "the line added is not collapse(…) of matches"
		}
		m := lc.at(cc.Call.Args[0])
		if sl, isSl := m.(*ssa.Slice); isSl {
			// only the tail may be cut: [:len(x)-k]
			if sl.Low != nil {
				return false, "the front of a line is cut off"
			}
			m = lc.at(sl.X)
		}
		ec, okX := m.(*ssa.Call)
		if !okX || ec.Call.StaticCallee() == nil || ec.Call.StaticCallee().Name() != "expand" {
			return false, "the line added does not come from expand"
		}
		ld, okL := ec.Call.Args[0].(*ssa.UnOp)
		var ia *ssa.IndexAddr
		if okL {
			ia, _ = ld.X.(*ssa.IndexAddr)
		}
		if ia == nil || unwrapLoad(ia.X) != lines || !lc.proveEq(lc.num(ia.Index).add(iPre, -1)) {
			return false, "the line added is not lines[i] of the text"
		}
		return true, ""
	}
	if c13SnipRunsForward(P, fn, H, idx) {
		c13SnipForward(c, fn, H, entry, idx, kept, lines, height, lineOfTrip)
		c13SnipResult(c, fn, kept, ellipsis)
		c13SnipWidth(c, fn, H, kept, ellipsis, ssa.Value(fn.Params[1]))
		return
	}
	// (a) on entry: i = h-1 with h <= height and h <= len(lines), nothing kept
	symH := newLin()
	symH.coef["snip:h"] = 1
	entryPaths, _ := enumeratePaths(fn, H, 256)
	okEntry := len(entryPaths) > 0
	whyEntry := ""
	for _, pf := range entryPaths {
		if len(pf.blocks) < 2 || pf.blocks[len(pf.blocks)-2] != entry {
			continue
		}
		lc := newLcPath(P, fn, pf)
		lc.opaqueLoops(H)
		lc.useFacts()
		i0 := lc.num(edgeOf(idx, entry))
		k0, okK := lenOfSlice(lc, edgeOf(kept, entry), 0)
		h := i0.add(linConst(1), 1)
		hgt := lc.num(height)
		nLines, _ := lc.slice(lines)
		switch {
		case !okK || !lc.proveEq(k0):
			okEntry, whyEntry = false, "something is kept before the loop starts"
		case !lc.nonNeg(hgt.add(h, -1)):
			okEntry, whyEntry = false, "the index does not start below `height` (at "+i0.String()+")"
		case !lc.nonNeg(nLines.add(h, -1)):
			okEntry, whyEntry = false, "the index can start beyond the last line"
		}
	}
	c.check(okEntry, fname+"/snip-entry", pos, fname, "the walk starts at min(len(lines), height)-1 with nothing kept", "Snip: "+whyEntry)
	// round the loop
	loopPaths, complete := enumeratePathsFrom(fn, H, H, 1024)
	if !c.check(complete && len(loopPaths) > 0, fname+"/snip-paths", pos, fname, fmt.Sprintf("%d paths round the loop", len(loopPaths)), "the paths round Snip's loop could not be enumerated") {
		return
	}
	for pi, pf := range loopPaths {
		blocks := pf.blocks[:len(pf.blocks)-1]
		last := blocks[len(blocks)-1]
		lc := newLcPath(P, fn, pathFacts{blocks: blocks, facts: pf.facts})
		lc.useFacts()
		where := "path through lines " + pathLines(P, pf)
		i1 := lc.num(edgeOf(idx, last))
		iPre := lc.num(idx)
		stepOK := lc.proveEq(i1.add(iPre, -1).add(linConst(1), 1)) // i' = i - 1
		newKept := lc.at(edgeOf(kept, last))
		grown, shapeOK, why := false, true, ""
		if newKept != ssa.Value(kept) {
			grown = true
			// append([]string{e}, kept...)
			call, ok := newKept.(*ssa.Call)
			b, isB := (*ssa.Builtin)(nil), false
			if ok {
				b, isB = call.Call.Value.(*ssa.Builtin)
			}
			if !ok || !isB || b.Name() != "append" || lc.at(call.Call.Args[1]) != ssa.Value(kept) {
				shapeOK, why = false, "what was kept before is not put BEHIND the new line (the index runs downwards, so new lines belong in front)"
			} else if elems, okE := variadicElements(call.Call.Args[0]); !okE || len(elems) != 1 {
				shapeOK, why = false, "not exactly one line is added"
			} else {
				shapeOK, why = lineOfTrip(lc, elems[0], iPre)
			}
		} else {
			// nothing kept in this trip: only while nothing has been kept at all
			n, _ := lc.slice(kept)
			if !lc.proveEq(n) {
				shapeOK, why = false, "a line is skipped although later lines have been kept: the result has a gap"
			}
		}
		_ = grown
		c.check(stepOK && shapeOK, fmt.Sprintf("%s/snip-trip#%d", fname, pi), pos, fname, "the index drops by one; lines[i] (or nothing, while nothing is kept yet) goes in front of the kept lines ("+where+")", "Snip: "+map[bool]string{true: why, false: "the index does not drop by exactly one"}[stepOK]+" ("+where+")")
	}
	c13SnipResult(c, fn, kept, ellipsis)
	c13SnipWidth(c, fn, H, kept, ellipsis, ssa.Value(fn.Params[1]))
	// ellipses handed in are constants without a line feed
	for _, e := range P.Callers(fn) {
		if e.Site == nil {
			continue
		}
		arg := e.Site.Common().Args[3]
		// a constant, possibly coloured by the style layer (which adds no line feed: C14)
		for d := 0; d < 3; d++ {
			call, isCall := arg.(*ssa.Call)
			if !isCall {
				break
			}
			sc := call.Call.StaticCallee()
			if sc == nil || sc.Pkg == nil || sc.Pkg.Pkg.Path() != "servitor/style" || len(call.Call.Args) != 1 {
				break
			}
			arg = call.Call.Args[0]
		}
		s, ok := constString(arg)
		c.check(ok && !strings.Contains(s, "\n"), FuncName(e.Caller.Func)+"/snip-ellipsis", P.InstrPos(e.Site), FuncName(e.Caller.Func), "the ellipsis is a constant without a line feed", "the ellipsis handed to Snip may contain a line feed: the result would have more lines than asked for")
	}
}

// (c) of R7: the result is Join(kept, "\n") [+ ellipsis]
func c13SnipResult(c *Ctx, fn *ssa.Function, kept *ssa.Phi, ellipsis ssa.Value) {
	P := c.P
	fname := FuncName(fn)
	eachInstr(fn, func(_ *ssa.BasicBlock, _ int, in ssa.Instruction) {
		ret, ok := in.(*ssa.Return)
		if !ok || len(ret.Results) != 1 {
			return
		}
		okRes := true
		var walk func(v ssa.Value, d int)
		walk = func(v ssa.Value, d int) {
			if d > 6 {
				okRes = false
				return
			}
			switch x := v.(type) {
			case *ssa.Phi:
				for _, e := range x.Edges {
					walk(e, d+1)
				}
			case *ssa.BinOp:
				if x.Op == token.ADD && unwrapLoad(x.Y) == ellipsis {
					walk(x.X, d+1)
					return
				}
				okRes = false
			case *ssa.Call:
				if isLibCall(&x.Call, "strings", "", "Join") {
					if s, ok := constString(x.Call.Args[1]); ok && s == "\n" && x.Call.Args[0] == ssa.Value(kept) {
						return
					}
				}
				okRes = false
			default:
				okRes = false
			}
		}
		walk(ret.Results[0], 0)
		c.check(okRes, fname+"/snip-result", P.InstrPos(ret), fname, "the kept lines joined with line feeds, plus possibly the ellipsis", "Snip returns something else than the kept lines joined with line feeds and, at most, the ellipsis behind them")
	})
}

// boolTestOf: cond tests the boolean value p — `p`, `!p`, `p == true`, `p !=
// true`, `p == false`, … (also for a named boolean type and its constants).
// polarity: the truth of cond when p is true.
func boolTestOf(cond, p ssa.Value) (polarity, ok bool) {
	polarity = true
	for d := 0; d < 6; d++ {
		cond = unwrapLoad(cond)
		if ct, isCT := cond.(*ssa.ChangeType); isCT {
			cond = ct.X
			continue
		}
		if cond == p {
			return polarity, true
		}
		switch x := cond.(type) {
		case *ssa.UnOp:
			if x.Op != token.NOT {
				return false, false
			}
			polarity, cond = !polarity, x.X
		case *ssa.BinOp:
			if x.Op != token.EQL && x.Op != token.NEQ {
				return false, false
			}
			side, k := x.X, x.Y
			if _, isC := side.(*ssa.Const); isC {
				side, k = k, side
			}
			kc, isC := k.(*ssa.Const)
			if !isC || kc.Value == nil || kc.Value.Kind() != constant.Bool {
				return false, false
			}
			if constant.BoolVal(kc.Value) != (x.Op == token.EQL) {
				polarity = !polarity
			}
			cond = side
		default:
			return false, false
		}
	}
	return false, false
}

// c13R8: Wrap breaks lines at blanks and Snip drops blank lines; which
// characters are blanks is asked of unicode.IsSpace. The argument has to be a
// rune of the character — element 0 of `[]rune(s)`, a rune produced by a range
// over the string, or utf8.DecodeRuneInString — and never a byte of its UTF-8
// encoding turned into a rune: for every character beyond ASCII that would be
// another character (U+3000 starts with 0xE3, 'ã').
func c13R8(c *Ctx) {
	P := c.P
	for _, fn := range P.FuncsIn("servitor/ansi") {
		fname := FuncName(fn)
		eachInstr(fn, func(_ *ssa.BasicBlock, _ int, in ssa.Instruction) {
			call, ok := in.(*ssa.Call)
			if !ok || !(isLibCall(&call.Call, "unicode", "", "IsSpace") || isLibCall(&call.Call, "unicode", "", "IsPrint") || isLibCall(&call.Call, "unicode", "", "IsControl")) {
				return
			}
			arg := call.Call.Args[0]
			why := ""
			var judge func(v ssa.Value, d int) bool
			judge = func(v ssa.Value, d int) bool {
				if d > 6 {
					why = "the classified value is of unknown origin"
					return false
				}
				switch x := unwrapLoad(v).(type) {
				case *ssa.Parameter:
					return true // a rune handed in as a rune (strings.Map callbacks, helpers): typed by the caller
				case *ssa.Phi:
					for _, e := range x.Edges {
						if !judge(e, d+1) {
							return false
						}
					}
					return true
				case *ssa.Extract:
					if _, isNext := x.Tuple.(*ssa.Next); isNext {
						return true // range over a string yields runes
					}
					if tc, isCall := x.Tuple.(*ssa.Call); isCall && (isLibCall(&tc.Call, "unicode/utf8", "", "DecodeRuneInString") || isLibCall(&tc.Call, "unicode/utf8", "", "DecodeLastRuneInString")) {
						return true
					}
				case *ssa.UnOp:
					if ia, isIA := x.X.(*ssa.IndexAddr); isIA && x.Op == token.MUL {
						if sl, isSl := ia.X.Type().Underlying().(*types.Slice); isSl {
							if b, isB := sl.Elem().Underlying().(*types.Basic); isB && b.Kind() == types.Int32 {
								return true // an element of a []rune
							}
						}
					}
				case *ssa.Convert:
					if b, isB := x.X.Type().Underlying().(*types.Basic); isB && (b.Kind() == types.Uint8 || b.Kind() == types.Int8) {
						why = "a byte of the character's UTF-8 encoding is turned into a rune and classified: beyond ASCII that is another character, so blanks such as U+3000 or U+00A0 are taken for letters (and some letters for blanks)"
						return false
					}
					return judge(x.X, d+1)
				case *ssa.Const:
					return true
				}
				if why == "" {
					why = "the classified value is not a rune of the text (element of a []rune conversion, range over the string, or a decoded rune)"
				}
				return false
			}
			c.check(judge(arg, 0), fname+"/classified-rune", P.InstrPos(in), fname, "the character class is asked of a rune of the character", why)
		})
	}
}
