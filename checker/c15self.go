package main

import (
	"fmt"
	"go/token"
	"sort"
	"strings"

	"golang.org/x/tools/go/ssa"
)

// A renderer without a delegate: `Render` (and `NewMarkup`) wrap the text and
// fill the cache themselves — what is left when the function that used to
// render AND return the text becomes a method that writes the cache, or is
// inlined. The three rules of C15 are then decided on the cache pair itself:
//
//	R1  every store into `cached` (in Render and NewMarkup) is a (trimmed)
//	    ansi.Wrap / DumbWrap at some width w, and `cachedWidth` is set to that
//	    very w in the same block; in Render w is the requested width.
//	R2  what Render returns is the cache, and on every path to the return
//	    either such a pair of stores for the requested width was made, or the
//	    path has tested cachedWidth == width and stores nothing; nobody else
//	    writes the pair; NewMarkup fills it on the way to every accepting
//	    return.
//	R3  apart from the pair, Render writes nothing it did not allocate, reads
//	    the pair for nothing but the test and the return, and reads no mutable
//	    package-level state.

type cachePair struct {
	text, width *ssa.Store
	w           ssa.Value // the width operand of the wrap
	wrapOK      bool
	same        bool
}

func markupBase(v ssa.Value, pkg string) bool {
	n := namedOf(v.Type())
	return n != nil && n.Obj().Name() == "Markup" && n.Obj().Pkg() != nil && n.Obj().Pkg().Path() == pkg
}

func cachePairsOf(P *Program, fn *ssa.Function, pkg string) (pairs []cachePair, lone []*ssa.Store) {
	return cachePairsVia(P, fn, pkg, nil)
}

// cachePairsVia: as cachePairsOf; with a delegate `inner`, result #0 of
// inner(…, w) counts as a rendering at w (that inner ends in a wrap at its
// width parameter is C15.R1's business).
func cachePairsVia(P *Program, fn *ssa.Function, pkg string, inner *ssa.Function) (pairs []cachePair, lone []*ssa.Store) {
	wrap := P.Func("servitor/ansi", "Wrap")
	dumb := P.Func("servitor/ansi", "DumbWrap")
	for _, b := range fn.Blocks {
		var texts, widths []*ssa.Store
		for _, in := range b.Instrs {
			st, ok := in.(*ssa.Store)
			if !ok {
				continue
			}
			fa, ok := st.Addr.(*ssa.FieldAddr)
			if !ok || !markupBase(fa.X, pkg) {
				continue
			}
			switch fieldOf(fa).Name() {
			case "cached":
				texts = append(texts, st)
			case "cachedWidth":
				widths = append(widths, st)
			}
		}
		if len(texts) == 1 && len(widths) == 1 {
			p := cachePair{text: texts[0], width: widths[0]}
			if call, ok := stripTrims(unwrapLoad(texts[0].Val)).(*ssa.Call); ok {
				if sc := call.Call.StaticCallee(); sc != nil && (sc == wrap || sc == dumb) {
					p.wrapOK = true
					p.w = call.Call.Args[1]
				}
			}
			if ex, ok := unwrapLoad(texts[0].Val).(*ssa.Extract); ok && ex.Index == 0 && inner != nil {
				if call, ok := ex.Tuple.(*ssa.Call); ok && call.Call.StaticCallee() == inner && len(call.Call.Args) > 0 {
					p.wrapOK = true
					p.w = call.Call.Args[len(call.Call.Args)-1]
				}
			}
			if p.wrapOK {
				a, b := unwrapLoad(p.w), unwrapLoad(widths[0].Val)
				ka, okA := constInt(a)
				kb, okB := constInt(b)
				p.same = a == b || (okA && okB && ka == kb)
			}
			pairs = append(pairs, p)
			continue
		}
		lone = append(lone, texts...)
		lone = append(lone, widths...)
	}
	return
}

func c15SelfR1(c *Ctx, m *markupImpl) {
	P := c.P
	for _, fn := range []*ssa.Function{m.render, m.newFn} {
		fname := FuncName(fn)
		pairs, lone := cachePairsOf(P, fn, m.pkg)
		for _, st := range lone {
			c.bad(fname+"/cache-pair", P.InstrPos(st), fname, "the cached text and the width it was rendered at are not stored together: one of them can describe another rendering")
		}
		for _, p := range pairs {
			why := ""
			switch {
			case !p.wrapOK:
				why = "the text stored in the cache is not the result of ansi.Wrap / ansi.DumbWrap: lines can be longer than the width"
			case !p.same:
				why = "the text stored in the cache is wrapped at " + lin(p.w).String() + " but recorded as rendered at " + lin(p.width.Val).String()
			case fn == m.render && unwrapLoad(p.w) != ssa.Value(fn.Params[1]):
				why = "Render wraps at " + lin(p.w).String() + " instead of the requested width"
			}
			c.check(why == "", fname+"/final-wrap", P.InstrPos(p.text), fname, "the cache holds (trimmed) ansi.Wrap/DumbWrap(text, w) together with that w", why)
		}
		if fn == m.render && len(pairs) == 0 {
			c.bad(fname+"/final-wrap", P.Pos(fn.Pos()), fname, "Render neither hands the text to a render function of its package nor wraps and caches it itself: that the rendering fits the width cannot be established")
		}
	}
}

func c15SelfR2(c *Ctx, m *markupImpl) {
	P := c.P
	r := m.render
	rname := FuncName(r)
	recv, width := r.Params[0], r.Params[1]
	isField := func(v ssa.Value, name string) bool {
		u, ok := v.(*ssa.UnOp)
		if !ok || u.Op != token.MUL {
			return false
		}
		fa, ok := u.X.(*ssa.FieldAddr)
		return ok && unwrapLoad(fa.X) == ssa.Value(recv) && fieldOf(fa).Name() == name
	}
	pairs, lone := cachePairsOf(P, r, m.pkg)
	good := map[*ssa.BasicBlock]bool{}
	storing := map[*ssa.BasicBlock]bool{}
	for _, p := range pairs {
		storing[p.text.Block()] = true
		if p.wrapOK && p.same && unwrapLoad(p.w) == ssa.Value(width) {
			good[p.text.Block()] = true
		}
	}
	for _, st := range lone {
		storing[st.Block()] = true
	}
	for _, b := range r.Blocks {
		ret, ok := b.Instrs[len(b.Instrs)-1].(*ssa.Return)
		if !ok {
			continue
		}
		v := ret.Results[0]
		okRet, why := true, ""
		fromCache := isField(v, "cached")
		if !fromCache {
			// the very text that was just stored
			okRet = false
			why = "Render returns something that is neither the cache nor the rendering it has just cached for the requested width"
			for _, p := range pairs {
				if good[p.text.Block()] && p.text.Val == v && dominatesInstr(p.text, ret) {
					okRet = true
				}
			}
		} else {
			okRet, why = cachedReturnOnPaths(P, r, b, isField, width, storing, good)
		}
		c.check(okRet, rname+"/return:cached", P.InstrPos(ret), rname, "the cache is returned only for the width it holds: tested, or just filled for the requested width", why)
	}
	// the constructor fills the pair on the way to every accepting return
	n := m.newFn
	nname := FuncName(n)
	npairs, _ := cachePairsOf(P, n, m.pkg)
	okInit := false
	for _, p := range npairs {
		if !p.wrapOK || !p.same {
			continue
		}
		all := true
		for _, b := range n.Blocks {
			ret, ok := b.Instrs[len(b.Instrs)-1].(*ssa.Return)
			if !ok {
				continue
			}
			if len(ret.Results) > 0 && isNilConst(ret.Results[0]) {
				continue // a refusal
			}
			if !dominatesInstr(p.text, ret) {
				all = false
			}
		}
		okInit = okInit || all
	}
	c.check(okInit, nname+"/initial-cache", P.Pos(n.Pos()), nname, "initial cache = rendering at the recorded width", "NewMarkup does not fill the cache pair from one rendering at one width on the way to every accepting return, while Render trusts it")
	for _, fn := range P.Funcs {
		if fn == r || fn == n {
			continue
		}
		eachInstr(fn, func(_ *ssa.BasicBlock, _ int, in ssa.Instruction) {
			st, ok := in.(*ssa.Store)
			if !ok {
				return
			}
			fa, ok := st.Addr.(*ssa.FieldAddr)
			if !ok || !markupBase(fa.X, m.pkg) {
				return
			}
			if fieldOf(fa).Name() == "cached" || fieldOf(fa).Name() == "cachedWidth" {
				c.bad(FuncName(fn)+"/cache-writer", P.InstrPos(in), FuncName(fn), "the render cache is written outside Render and NewMarkup")
			}
		})
	}
}

// c15SelfR3: purity of a self-contained Render, the cache pair set aside.
func c15SelfR3(c *Ctx, m *markupImpl, E *Effects) {
	P := c.P
	fn := m.render
	fname := FuncName(fn)
	var bad []string
	for r, pos := range E.Writes(fn) {
		if r == "unknown" || strings.HasSuffix(r, ".Markup.cached") || strings.HasSuffix(r, ".Markup.cachedWidth") {
			continue
		}
		if r == "param:0" {
			// through the receiver: Render's own stores into the pair, and nothing else
			okRecv := true
			for _, w := range E.directWrites(fn) {
				viaRecv := false
				for _, root := range E.Roots(w.addr) {
					if root == "param:0" {
						viaRecv = true
					}
				}
				if !viaRecv {
					continue
				}
				fa, isFA := w.addr.(*ssa.FieldAddr)
				if _, isStore := w.in.(*ssa.Store); !isStore || !isFA || !markupBase(fa.X, m.pkg) || (fieldOf(fa).Name() != "cached" && fieldOf(fa).Name() != "cachedWidth") {
					okRecv = false
					pos = P.InstrPos(w.in)
				}
			}
			eachInstr(fn, func(_ *ssa.BasicBlock, _ int, in ssa.Instruction) {
				ci, isCall := in.(ssa.CallInstruction)
				if !isCall {
					return
				}
				for _, callee := range P.Callees(ci) {
					if !P.IsServitorFunc(callee) {
						continue
					}
					for cr := range E.Writes(callee) {
						for _, mapped := range E.mapRoot(fn, ci, callee, cr) {
							if mapped == "param:0" {
								okRecv = false
								pos = P.InstrPos(in)
							}
						}
					}
				}
			})
			if okRecv {
				continue
			}
		}
		bad = append(bad, r+" (at "+pos+")")
	}
	sort.Strings(bad)
	c.check(len(bad) == 0, fname+"/pure", P.Pos(fn.Pos()), fname,
		"writes only the cache pair and memory it allocated itself",
		"rendering has side effects: it writes "+strings.Join(bad, "; ")+" — the text would depend on earlier renderings")
	// the pair is read for the test and the return only
	okReads, whyReads := true, ""
	eachInstr(fn, func(_ *ssa.BasicBlock, _ int, in ssa.Instruction) {
		u, ok := in.(*ssa.UnOp)
		if !ok || u.Op != token.MUL {
			return
		}
		fa, ok := u.X.(*ssa.FieldAddr)
		if !ok || !markupBase(fa.X, m.pkg) {
			return
		}
		name := fieldOf(fa).Name()
		if name != "cached" && name != "cachedWidth" {
			return
		}
		for _, r := range refs(u) {
			switch x := r.(type) {
			case *ssa.Return, *ssa.DebugRef:
			case *ssa.BinOp:
				if x.Op != token.EQL && x.Op != token.NEQ {
					okReads, whyReads = false, fmt.Sprintf("the cached %s takes part in the computation at %s", name, P.InstrPos(x))
				}
			case *ssa.Phi:
				for _, rr := range refs(x) {
					if _, isRet := rr.(*ssa.Return); !isRet {
						okReads, whyReads = false, fmt.Sprintf("the cached %s flows on at %s", name, P.InstrPos(x))
					}
				}
			default:
				okReads, whyReads = false, fmt.Sprintf("the cached %s is used at %s", name, P.InstrPos(r))
			}
		}
	})
	c.check(okReads, fname+"/cache-reads", P.Pos(fn.Pos()), fname, "the cache pair is read for the width test and the return only", "a new rendering depends on an earlier one: "+whyReads)
}

// cachedReturnOnPaths: Render returns the cache at the end of block b. On
// every path there, either a pair of stores for the requested width was made
// last, or the path has tested cachedWidth == width and stores nothing.
func cachedReturnOnPaths(P *Program, r *ssa.Function, b *ssa.BasicBlock, isField func(ssa.Value, string) bool, width ssa.Value, storing, good map[*ssa.BasicBlock]bool) (bool, string) {
	paths, complete := enumeratePaths(r, b, 512)
	if !complete || len(paths) == 0 {
		return false, "the paths through Render could not be enumerated"
	}
	for _, pf := range paths {
		stored, refreshed := false, false
		for _, pb := range pf.blocks {
			if storing[pb] {
				stored = true
				refreshed = good[pb] // the last store on the path counts
			}
		}
		tested := false
		for _, f := range pf.facts {
			cmp, ok := f.Cmp()
			if !ok || cmp.Op != token.EQL {
				continue
			}
			if (isField(cmp.X, "cachedWidth") && unwrapLoad(cmp.Y) == width) || (isField(cmp.Y, "cachedWidth") && unwrapLoad(cmp.X) == width) {
				tested = true
			}
		}
		if !(refreshed || (tested && !stored)) {
			return false, "the cached rendering is returned on a path (lines " + pathLines(P, pf) + ") that neither knows cachedWidth == width nor has just rendered at the requested width"
		}
	}
	return true, ""
}
