package main

import (
	"go/token"
	"go/types"
	"strings"

	"golang.org/x/tools/go/ssa"
)

func init() { registry["C09"] = propC09 }

func propC09() *Property {
	return &Property{
		ID:          "C09",
		Explanation: "Static path-fact rules on the three gatekeepers and their wiring. Decided: (R1) the closure that constructs outbox entries returns the activity only on paths that know the owning actor's id is non-nil and that activity.ActorIdentifier().String() equals it; every other return is a NewFailure item, never nil (impostors appear in place as error items); (R2) the same for replies with comment.ParentIdentifier() and the post's id; (R3) wiring: the \"outbox\" collection receives R1's closure and \"replies\"/\"comments\" receive R2's, Collection.construct is stored only from the constructor's parameter, every delivered element of a page is construct(elements[k], c.id) stored at its own slot and following pages inherit the same construct; (R4) NewPostFromObject succeeds only after a loop over all creators (after the fan-out joined) in which every *Actor either has a nil id together with a nil post id, or both non-nil with equal Host — everything else reaches the 'forged creators' error; (R5) the identifier accessors return the validated id fields and nothing else. (R3, addition) every non-nil result of NewCollectionFromObject is the allocation of that call, with the caller's construct stored into it. (R4, addition) the creators loop is left towards a success return only from its header, when the range is exhausted (no break that lets later creators escape the check). (R6) what the gatekeepers let through is added to the page it was loaded for (in-flight flag pairing; the instances of C08.R9). (R8) what getActors lists as authors and recipients comes from NewActor or NewFailure only: the same-host test of the creators looks at actors. (R9 = C05.R4) the gatekeepers hand NewFailure a non-nil error: a rejected entry is an error item, not a crash. Not decided: end-to-end behaviour on generated worlds; that string equality of URLs is the right notion of identity.",
		Assumptions: []string{"the ids compared are the validated ids established by C02"},
		Rules: []Rule{
			{ID: "C09.R1", Title: "outbox gatekeeper compares the activity's actor with the owner", Floor: 2, Run: func(c *Ctx) { c09Gate(c, "NewActorFromObject", "NewActivity", "ActorIdentifier") }},
			{ID: "C09.R2", Title: "reply gatekeeper compares the comment's parent with this post", Floor: 2, Run: func(c *Ctx) { c09Gate(c, "NewPostFromObject", "NewPost", "ParentIdentifier") }},
			{ID: "C09.R3", Title: "gatekeepers are wired to their collections and applied to every element", Floor: 7, Run: c09R3},
			{ID: "C09.R4", Title: "authors live on the post's host", Floor: 1, Run: c09R4},
			{ID: "C09.R5", Title: "identifier accessors return validated ids only", Floor: 5, Run: c09R5},
			{ID: "C09.R6", Title: "checked replies and timeline entries are added to the page they were loaded for (same instances as C08.R9)", Floor: 8, Run: c08R9},
			{ID: "C09.R9", Title: "a rejected entry appears as an error item: the gatekeepers hand NewFailure an error that is not nil (same instances as C05.R4)", Floor: 18, Run: c05R4},
			{ID: "C09.R8", Title: "the authors and recipients of a post are actors or error items: what getActors puts into its list comes from NewActor or NewFailure, nothing else — the same-host test of the creators looks at actors only", Floor: 1, Run: c09R8},
			{ID: "C09.R7", Title: "the ids the gatekeepers compare are ids the documents carry: FetchUnknown never invents one (same instances as C02.R3)", Floor: 4, Run: c02R3},
		},
	}
}

// gatekeeperOf finds, inside ctor, the closure that calls producer (NewActivity / NewPost).
func gatekeeperOf(P *Program, ctorName, producer string) (*ssa.Function, *ssa.Function) {
	ctor := P.Func("servitor/pub", ctorName)
	for _, cl := range Closures(ctor) {
		found := false
		eachInstr(cl, func(_ *ssa.BasicBlock, _ int, in ssa.Instruction) {
			if call, ok := in.(*ssa.Call); ok {
				if sc := call.Call.StaticCallee(); sc != nil && sc.Name() == producer {
					found = true
				}
			}
		})
		sig := cl.Signature
		if found && sig.Params().Len() == 2 && sig.Results().Len() == 1 && isNamed(sig.Results().At(0).Type(), "servitor/pub", "Tangible") {
			return ctor, cl
		}
	}
	return ctor, nil
}

func c09Gate(c *Ctx, ctorName, producer, accessor string) {
	P := c.P
	ctor, g := gatekeeperOf(P, ctorName, producer)
	if g == nil {
		c.bad(FuncName(ctor)+"/gatekeeper", P.Pos(ctor.Pos()), FuncName(ctor), "no construct closure calling "+producer+" found in "+ctorName+": entries are no longer checked against their owner")
		return
	}
	gname := FuncName(g)
	// the owner's id: the constructor's *url.URL parameter, captured
	var idParam *ssa.Parameter
	for _, p := range ctor.Params {
		if isNamed(p.Type(), "net/url", "URL") {
			idParam = p
		}
	}
	if idParam == nil {
		unfollowed("%s has no id parameter", ctorName)
	}
	// … or read back from the field of the object under construction that holds
	// it: a field whose only store in the whole module is `x.f = id` in the
	// constructor, on the constructor's own allocation (a gatekeeper that became a
	// method of the object reads p.id where the closure read the captured id)
	idPaths := map[string]bool{path(idParam): true}
	{
		var idField *types.Var
		nStores, okStore := map[*types.Var]int{}, map[*types.Var]bool{}
		for _, fn := range P.Funcs {
			eachInstr(fn, func(_ *ssa.BasicBlock, _ int, in ssa.Instruction) {
				st, ok := in.(*ssa.Store)
				if !ok {
					return
				}
				fa, ok := st.Addr.(*ssa.FieldAddr)
				if !ok || !isNamed(st.Val.Type(), "net/url", "URL") {
					return
				}
				f := fieldOf(fa)
				nStores[f]++
				if al, isAl := unwrapLoad(fa.X).(*ssa.Alloc); isAl && al.Heap && al.Parent() == ctor && fn == ctor && unwrapLoad(st.Val) == ssa.Value(idParam) {
					okStore[f] = true
				}
			})
		}
		for f, n := range nStores {
			if n == 1 && okStore[f] {
				idField = f
			}
		}
		if idField != nil {
			eachInstr(g, func(_ *ssa.BasicBlock, _ int, in ssa.Instruction) {
				u, ok := in.(*ssa.UnOp)
				if !ok || u.Op != token.MUL {
					return
				}
				fa, ok := u.X.(*ssa.FieldAddr)
				if !ok || fieldOf(fa) != idField {
					return
				}
				if al, isAl := unwrapLoad(fa.X).(*ssa.Alloc); isAl && al.Heap && al.Parent() == ctor {
					idPaths[path(u)] = true
				}
			})
		}
	}
	for _, b := range g.Blocks {
		ret, ok := b.Instrs[len(b.Instrs)-1].(*ssa.Return)
		if !ok {
			continue
		}
		pos := P.InstrPos(ret)
		v := ret.Results[0]
		if isNilConst(v) {
			c.bad(gname+"/return:nil", pos, gname, "the gatekeeper returns nil: the entry is silently dropped instead of appearing as an error item")
			continue
		}
		mi, ok := v.(*ssa.MakeInterface)
		if !ok {
			c.bad(gname+"/return:unknown", pos, gname, "the gatekeeper returns a value of unknown origin")
			continue
		}
		if call, ok := mi.X.(*ssa.Call); ok && call.Call.StaticCallee() != nil && call.Call.StaticCallee().Name() == "NewFailure" {
			c.ok(gname+"/return:failure", pos, gname, "rejected entries are shown in place as error items")
			continue
		}
		// genuine item: must be result #0 of producer(input, source) with the closure's own parameters
		ex, ok := mi.X.(*ssa.Extract)
		var pc *ssa.Call
		if ok && ex.Index == 0 {
			pc, _ = ex.Tuple.(*ssa.Call)
		}
		if pc == nil || pc.Call.StaticCallee() == nil || pc.Call.StaticCallee().Name() != producer {
			c.bad(gname+"/return:item", pos, gname, "the item returned as genuine is not the one built by "+producer)
			continue
		}
		if unwrapLoad(pc.Call.Args[0]) != ssa.Value(g.Params[0]) || unwrapLoad(pc.Call.Args[1]) != ssa.Value(g.Params[1]) {
			c.bad(gname+"/return:item", pos, gname, producer+" is not applied to the element and source the collection hands in")
			continue
		}
		e, _ := errorResult(pc)
		facts := factsOf(g).At(b)
		itemPath := path(ex)
		accPath := "call:(*servitor/pub." + map[string]string{"ActorIdentifier": "Activity", "ParentIdentifier": "Post"}[accessor] + ")." + accessor + "(" + itemPath + ")"
		wantL := "call:(*net/url.URL).String(" + accPath + ")"
		isWantR := func(p string) bool {
			for idPath := range idPaths {
				if p == "call:(*net/url.URL).String("+idPath+")" {
					return true
				}
			}
			return false
		}
		eq, idNonNil, accNonNil := false, false, false
		for _, f := range facts {
			cmp, ok := f.Cmp()
			if !ok {
				continue
			}
			px, py := path(cmp.X), path(cmp.Y)
			if cmp.Op == token.EQL && ((px == wantL && isWantR(py)) || (isWantR(px) && py == wantL)) {
				eq = true
			}
			if cmp.Op == token.NEQ && isNilConst(cmp.Y) {
				if idPaths[px] {
					idNonNil = true
				}
				if px == accPath {
					accNonNil = true
				}
			}
		}
		why := ""
		switch {
		case e == nil || !knownNil(e, b):
			why = "the error of " + producer + " is not checked"
		case !idNonNil:
			why = "the owner's id is not known to be non-nil (an owner without id would accept anything or crash)"
		case !accNonNil:
			why = "the entry's " + accessor + "() is not known to be non-nil"
		case !eq:
			why = "no test that " + accessor + "().String() equals the owner's id.String() holds on this path: entries of other owners are shown as genuine"
		}
		c.check(why == "", gname+"/return:genuine", pos, gname,
			"returned as genuine only when "+accessor+"().String() == owner id.String(), both non-nil", why)
	}
}

func c09R3(c *Ctx) {
	P := c.P
	// wiring of keys to gatekeepers
	want := map[string]string{"outbox": "ActorIdentifier", "replies": "ParentIdentifier", "comments": "ParentIdentifier"}
	gc := P.Func("servitor/pub", "getCollection")
	seen := map[string]bool{}
	for _, e := range P.Callers(gc) {
		if e.Site == nil {
			continue
		}
		args := e.Site.Common().Args
		key, _ := constString(args[1])
		fn := e.Caller.Func
		acc, known := want[key]
		if !known {
			c.note(FuncName(fn)+"/collection:"+key, P.InstrPos(e.Site), FuncName(fn), "collection without a membership rule")
			continue
		}
		seen[key] = true
		// the construct argument: a closure (possibly through a local variable) that calls the accessor
		cv := unwrapLoad(args[3])
		mc, ok := cv.(*ssa.MakeClosure)
		okAcc := false
		if ok {
			eachInstr(mc.Fn.(*ssa.Function), func(_ *ssa.BasicBlock, _ int, in ssa.Instruction) {
				if call, ok := in.(*ssa.Call); ok {
					if sc := call.Call.StaticCallee(); sc != nil && sc.Name() == acc {
						okAcc = true
					}
				}
			})
		}
		c.check(okAcc, FuncName(fn)+"/collection:"+key, P.InstrPos(e.Site), FuncName(fn),
			"the \""+key+"\" collection is built with the gatekeeper that checks "+acc, "the \""+key+"\" collection is not built with the gatekeeper that checks "+acc+"(): its entries are not tested for membership")
		// source = the owner's id field
		src := args[2]
		c.check(strings.HasSuffix(path(src), ".&id.*"), FuncName(fn)+"/collection-source:"+key, P.InstrPos(e.Site), FuncName(fn),
			"the collection is resolved relative to the owner's validated id", "the collection's source is not the owner's id")
	}
	for k := range want {
		if k == "comments" || k == "replies" || k == "outbox" {
			c.check(seen[k], "servitor/pub/collection-key:"+k, "pub", "servitor/pub", "key \""+k+"\" is fetched through getCollection with its gatekeeper", "no collection is built for key \""+k+"\" any more")
		}
	}
	// Collection.construct stored only from the constructor's parameter
	cf := P.Field("servitor/pub", "Collection", "construct")
	for _, fn := range P.Funcs {
		eachInstr(fn, func(_ *ssa.BasicBlock, _ int, in ssa.Instruction) {
			st, ok := in.(*ssa.Store)
			if !ok {
				return
			}
			fa, ok := st.Addr.(*ssa.FieldAddr)
			if !ok || fieldOf(fa) != cf {
				return
			}
			_, isParam := unwrapLoad(st.Val).(*ssa.Parameter)
			c.check(isParam && fn.Name() == "NewCollectionFromObject", FuncName(fn)+"/construct-store", P.InstrPos(in), FuncName(fn),
				"construct is the constructor's parameter", "Collection.construct is replaced after construction: the membership test can be swapped out")
		})
	}
	// the collection handed out is the one that was just built with this very
	// construct: every non-nil result of the constructor is its own allocation,
	// into which the construct parameter was stored (a collection taken from a
	// memo or a field carries whatever membership test its first builder chose)
	if ctor := P.Func("servitor/pub", "NewCollectionFromObject"); ctor != nil {
		for _, b := range ctor.Blocks {
			ret, ok := b.Instrs[len(b.Instrs)-1].(*ssa.Return)
			if !ok || isNilConst(ret.Results[0]) {
				continue
			}
			v := unwrapLoad(ret.Results[0])
			al, isAlloc := v.(*ssa.Alloc)
			okFresh := isAlloc && al.Heap && al.Parent() == ctor
			if okFresh {
				stored := false
				for _, r := range refs(al) {
					if fa, ok := r.(*ssa.FieldAddr); ok && fieldOf(fa) == cf {
						for _, rr := range refs(fa) {
							if st, ok := rr.(*ssa.Store); ok {
								if _, isParam := unwrapLoad(st.Val).(*ssa.Parameter); isParam {
									stored = true
								}
							}
						}
					}
				}
				okFresh = stored
			}
			c.check(okFresh, FuncName(ctor)+"/returns-own-collection", P.InstrPos(ret), FuncName(ctor),
				"the collection returned is the one built here with the caller's construct", "the constructor can return a collection it did not build with the caller's construct (a remembered one): the membership test of whoever built it first applies to every later listing")
		}
	}
	// harvest: every delivered element is construct(elements[k], c.id) stored at its slot; next pages inherit construct
	h := P.Method("servitor/pub", "Collection", "harvestWithEmptyCount")
	nApply := 0
	for _, fn := range append([]*ssa.Function{h}, Closures(h)...) {
		eachInstr(fn, func(_ *ssa.BasicBlock, _ int, in ssa.Instruction) {
			call, ok := in.(*ssa.Call)
			if !ok {
				return
			}
			// dynamic call of the construct field
			if u, ok := call.Call.Value.(*ssa.UnOp); ok && !call.Call.IsInvoke() {
				if fa, ok := u.X.(*ssa.FieldAddr); ok && fieldOf(fa) == cf {
					nApply++
					a0, a1 := call.Call.Args[0], call.Call.Args[1]
					okEl := strings.Contains(path(a0), ".&elements.*")
					okID := strings.HasSuffix(path(a1), ".&id.*")
					stored := false
					for _, r := range refs(call) {
						if st, ok := r.(*ssa.Store); ok {
							if slotAddrOf(st.Addr) != nil {
								stored = true
							}
						}
					}
					c.check(okEl && okID && stored, FuncName(fn)+"/apply-construct", P.InstrPos(in), FuncName(fn),
						"element delivered = construct(c.elements[k], c.id), stored at its own slot", "a page element is delivered without going through construct(element, c.id), or is not stored in place")
				}
			}
			if sc := call.Call.StaticCallee(); sc != nil && sc.Name() == "NewCollection" {
				a := call.Call.Args
				c.check(strings.HasSuffix(path(a[2]), ".&construct.*") && strings.HasSuffix(path(a[1]), ".&id.*"), FuncName(fn)+"/next-page-construct", P.InstrPos(in), FuncName(fn),
					"the next page is built with the same construct and this page's id as source", "the next page does not inherit this collection's construct (membership test) or source")
			}
		})
	}
	c.check(nApply >= 1, FuncName(h)+"/applies-construct", P.Pos(h.Pos()), FuncName(h), "construct is applied while harvesting", "harvest no longer applies construct to the elements")
	// no other producer of delivered items: the only stores into fromThisPage are construct results
	eachInstr(h, func(_ *ssa.BasicBlock, _ int, in ssa.Instruction) {})
}

func c09R4(c *Ctx) {
	P := c.P
	fn := P.Func("servitor/pub", "NewPostFromObject")
	fname := FuncName(fn)
	// the authors that were checked are the authors that are shown: nobody but the
	// constructor (before its check) writes Post.creators
	for _, st := range storesToField(P, P.Field("servitor/pub", "Post", "creators")) {
		root := st.Parent()
		for root.Parent() != nil {
			root = root.Parent()
		}
		c.check(root == fn, FuncName(st.Parent())+"/creators-writer", P.InstrPos(st), FuncName(st.Parent()), "Post.creators is filled by the constructor that checks it", "Post.creators is written outside NewPostFromObject: authors are added after the same-host check has run")
	}
	var idParam *ssa.Parameter
	for _, p := range fn.Params {
		if isNamed(p.Type(), "net/url", "URL") {
			idParam = p
		}
	}
	idPath := path(idParam)
	// the post's own id field, where it is only ever set from the id parameter, is the parameter under another name
	idPathSet := map[string]bool{idPath: true}
	{
		onlyParam, anyStore := true, false
		var loads []ssa.Value
		scan := func(f *ssa.Function) {
			eachInstr(f, func(_ *ssa.BasicBlock, _ int, in ssa.Instruction) {
				fa, ok := in.(*ssa.FieldAddr)
				if !ok || fieldOf(fa).Name() != "id" || !isNamed(fa.X.Type(), "servitor/pub", "Post") {
					return
				}
				for _, r := range refs(fa) {
					switch x := r.(type) {
					case *ssa.Store:
						if x.Addr == ssa.Value(fa) {
							anyStore = true
							if unwrapLoad(x.Val) != ssa.Value(idParam) {
								onlyParam = false
							}
						}
					case *ssa.UnOp:
						if x.Op == token.MUL && f == fn {
							loads = append(loads, x)
						}
					}
				}
			})
		}
		scan(fn)
		for _, an := range fn.AnonFuncs {
			scan(an)
		}
		if anyStore && onlyParam {
			for _, l := range loads {
				idPathSet[path(l)] = true
			}
		}
	}
	// success returns
	var wait *ssa.Call
	eachInstr(fn, func(_ *ssa.BasicBlock, _ int, in ssa.Instruction) {
		if call, ok := in.(*ssa.Call); ok && isLibCall(&call.Call, "sync", "WaitGroup", "Wait") {
			wait = call
		}
	})
	// the loop over creators: a TypeAssert to *Actor on an element of load(p.creators)
	var ta *ssa.TypeAssert
	eachInstr(fn, func(_ *ssa.BasicBlock, _ int, in ssa.Instruction) {
		if t, ok := in.(*ssa.TypeAssert); ok && isNamed(t.AssertedType, "servitor/pub", "Actor") {
			if strings.Contains(path(t.X), ".&creators.*") || creatorsElement(t.X) {
				ta = t
			}
		}
	})
	if ta == nil {
		c.bad(fname+"/creators-loop", P.Pos(fn.Pos()), fname, "NewPostFromObject no longer inspects its creators: posts with authors from other hosts are accepted")
		return
	}
	// loop header: the block that dominates ta's block and is on a cycle with it
	var header *ssa.BasicBlock
	for b := ta.Block(); b != nil; b = b.Idom() {
		if blockReaches(ta.Block(), b) && b.Dominates(ta.Block()) {
			header = b
		}
	}
	if header == nil {
		c.bad(fname+"/creators-loop", P.InstrPos(ta), fname, "the creator check is not inside a loop over all creators")
		return
	}
	for _, b := range fn.Blocks {
		ret, ok := b.Instrs[len(b.Instrs)-1].(*ssa.Return)
		if !ok || !isNilConst(ret.Results[1]) {
			continue
		}
		okDom := header.Dominates(b) && !blockReaches(b, header) && wait != nil && dominatesInstr(wait, header.Instrs[0])
		c.check(okDom, fname+"/success-after-loop", P.InstrPos(ret), fname,
			"success is reachable only after the creators loop has finished (which runs after the fan-out joined)", "the post can be returned as genuine without the creators loop having completed (or before the creators were fetched)")
	}
	// the loop is left towards success only when it has run out of creators: no
	// block of the loop other than its header (which holds the range test)
	// leads out of the loop to a success return — a break would let the
	// creators listed after it escape the check
	inLoop := map[*ssa.BasicBlock]bool{}
	for _, b := range fn.Blocks {
		if header.Dominates(b) && (b == header || blockReaches(b, header)) {
			inLoop[b] = true
		}
	}
	reachesSuccess := func(from *ssa.BasicBlock) bool {
		for _, b := range fn.Blocks {
			if ret, ok := b.Instrs[len(b.Instrs)-1].(*ssa.Return); ok && isNilConst(ret.Results[1]) {
				if from == b || blockReaches(from, b) {
					return true
				}
			}
		}
		return false
	}
	early := ""
	for b := range inLoop {
		if b == header {
			continue
		}
		for _, s := range b.Succs {
			if !inLoop[s] && reachesSuccess(s) {
				early = P.InstrPos(b.Instrs[len(b.Instrs)-1])
			}
		}
	}
	c.check(early == "", fname+"/creators-loop-complete", P.InstrPos(ta), fname, "the loop over the creators is left towards success only when every creator has been looked at",
		"the loop over the creators can be left early (at "+early+") on the way to accepting the post: creators listed after that point are never checked against the post's host")
	// every way back to the loop header from the isActor edge knows the hosts agree
	okExt := extractOf(ta, 0)
	actorPath := path(okExt)
	idAcc := "call:(*servitor/pub.Actor).Identifier(" + actorPath + ")"
	var okBlock *ssa.BasicBlock
	for _, r := range refs(extractOf(ta, 1)) {
		if iff, ok := r.(*ssa.If); ok {
			okBlock = iff.Block().Succs[0]
		}
	}
	if okBlock == nil {
		c.bad(fname+"/creators-check", P.InstrPos(ta), fname, "the *Actor assertion result is not branched on")
		return
	}
	paths, complete := enumeratePathsFrom(fn, okBlock, header, 2000)
	okAll := complete && len(paths) > 0
	why := ""
	for _, pf := range paths {
		bothNil := false
		accNil, idNil, hostEq, accNN, idNN := false, false, false, false, false
		for _, f := range pf.facts {
			cmp, ok := f.Cmp()
			if !ok {
				continue
			}
			px, py := path(cmp.X), path(cmp.Y)
			if isNilConst(cmp.Y) {
				if px == idAcc && cmp.Op == token.EQL {
					accNil = true
				}
				if idPathSet[px] && cmp.Op == token.EQL {
					idNil = true
				}
				if px == idAcc && cmp.Op == token.NEQ {
					accNN = true
				}
				if idPathSet[px] && cmp.Op == token.NEQ {
					idNN = true
				}
			}
			if cmp.Op == token.EQL {
				l := idAcc + ".&Host.*"
				for ip := range idPathSet {
					r := ip + ".&Host.*"
					if (px == l && py == r) || (px == r && py == l) {
						hostEq = true
					}
				}
			}
		}
		bothNil = accNil && idNil
		if !(bothNil || (hostEq && accNN && idNN)) {
			okAll = false
			why = "a path continues with the next creator without knowing that the author's id host equals the post's id host (or that both ids are absent)"
		}
	}
	if !complete {
		why = "too many paths"
	}
	c.check(okAll, fname+"/creators-same-host", P.InstrPos(ta), fname,
		"every accepted *Actor creator has Identifier().Host == id.Host (both non-nil) or both ids nil", why)
	// the failing edges reach an error return: every return inside the loop body is an error
	for _, b := range fn.Blocks {
		ret, ok := b.Instrs[len(b.Instrs)-1].(*ssa.Return)
		if !ok || !okBlock.Dominates(b) {
			continue
		}
		c.check(isNilConst(ret.Results[0]) && provablyNonNilErr(ret.Results[1], b, 0), fname+"/forged-return", P.InstrPos(ret), fname,
			"a mismatching author rejects the whole post", "the return taken for a mismatching author still delivers the post")
	}
}

func creatorsElement(v ssa.Value) bool {
	u, ok := v.(*ssa.UnOp)
	if !ok {
		return false
	}
	ia, ok := u.X.(*ssa.IndexAddr)
	if !ok {
		return false
	}
	return strings.Contains(path(ia.X), ".&creators.*")
}

func extractOf(t ssa.Value, idx int) ssa.Value {
	for _, r := range refs(t) {
		if ex, ok := r.(*ssa.Extract); ok && ex.Index == idx {
			return ex
		}
	}
	return nil
}

func c09R5(c *Ctx) {
	P := c.P
	type acc struct {
		typ, name string
		field     string // the id field it may return
		via       string // optional: delegate accessor on a pair value
	}
	for _, a := range []acc{
		{"Actor", "Identifier", "id", ""},
		{"Post", "ParentIdentifier", "parentIdentifier", ""},
		{"Activity", "ActorIdentifier", "", "Identifier"},
	} {
		fn := P.Method("servitor/pub", a.typ, a.name)
		fname := FuncName(fn)
		nn := newNonNil(P)
		for _, b := range fn.Blocks {
			ret, ok := b.Instrs[len(b.Instrs)-1].(*ssa.Return)
			if !ok {
				continue
			}
			v := ret.Results[0]
			if isNilConst(v) {
				c.ok(fname+"/return:nil", P.InstrPos(ret), fname, "no identifier")
				continue
			}
			okV := false
			why := "returns something other than the validated id field"
			if u, ok := v.(*ssa.UnOp); ok && u.Op == token.MUL && a.field != "" {
				if fa, ok := u.X.(*ssa.FieldAddr); ok && fieldOf(fa).Name() == a.field && unwrapLoad(fa.X) == ssa.Value(fn.Params[0]) {
					okV = true
					if ef := errSibling(fieldOf(fa), structOwner(fa)); ef != nil {
						// pair field: only under its Err == nil
						okV = nn.pairGuardedFactOnly(fa, b)
						why = "returns " + a.field + " without its error being known nil"
					}
				}
			}
			if call, ok := v.(*ssa.Call); ok && a.via != "" {
				if sc := call.Call.StaticCallee(); sc != nil && sc.Name() == a.via {
					// receiver: a.actor under actorErr == nil
					if u, ok := call.Call.Args[0].(*ssa.UnOp); ok {
						if fa, ok := u.X.(*ssa.FieldAddr); ok && unwrapLoad(fa.X) == ssa.Value(fn.Params[0]) {
							okV = nn.pairGuardedFactOnly(fa, b)
							why = "delegates to " + fieldOf(fa).Name() + " without its error being known nil (nil dereference)"
						}
					}
				}
			}
			c.check(okV, fname+"/return:id", P.InstrPos(ret), fname, "returns the validated id (under its error guard)", why)
		}
	}
	// the id fields are stored only from the constructors' id parameter / FetchUnknown result
	for _, tn := range []string{"Post", "Actor", "Activity", "Collection"} {
		f := P.Field("servitor/pub", tn, "id")
		for _, fn := range P.Funcs {
			eachInstr(fn, func(_ *ssa.BasicBlock, _ int, in ssa.Instruction) {
				st, ok := in.(*ssa.Store)
				if !ok {
					return
				}
				fa, ok := st.Addr.(*ssa.FieldAddr)
				if !ok || fieldOf(fa) != f {
					return
				}
				p, isParam := unwrapLoad(st.Val).(*ssa.Parameter)
				okS := isParam && fn.Name() == "New"+tn+"FromObject" && isNamed(p.Type(), "net/url", "URL")
				c.check(okS, FuncName(fn)+"/id-store:"+tn, P.InstrPos(in), FuncName(fn), tn+".id is the constructor's validated id parameter", tn+".id is assigned from something other than the constructor's id parameter")
			})
		}
	}
	_ = types.Typ
}

// c09R8: NewPostFromObject checks the host of every creator that is an
// *Actor and lets everything else pass as "necessarily a Failure". That is
// only true while getActors builds its list from NewActor (an actor or an
// error) and NewFailure: were another constructor used (NewTangible also
// returns posts and activities), an object of another kind on a foreign host
// would be shown as the author unchecked (seed C09-2r12).
func c09R8(c *Ctx) {
	P := c.P
	fn := P.Func("servitor/pub", "getActors")
	fname := FuncName(fn)
	fns := append([]*ssa.Function{fn}, fn.AnonFuncs...)
	// helpers of the package that are handed a slot of the list (or the list) to fill
	for _, f := range append([]*ssa.Function{}, fns...) {
		eachInstr(f, func(_ *ssa.BasicBlock, _ int, in ssa.Instruction) {
			cc := callOf(in)
			if cc == nil {
				return
			}
			sc := cc.StaticCallee()
			if sc == nil || P.PkgOf(sc) != "servitor/pub" || sc.Name() == "NewActor" || sc.Name() == "NewFailure" {
				return
			}
			for _, p := range sc.Params {
				t := p.Type()
				if pt, ok := t.Underlying().(*types.Pointer); ok && isNamed(pt.Elem(), "servitor/pub", "Tangible") {
					fns = append(fns, sc)
				} else if sl, ok := t.Underlying().(*types.Slice); ok && isNamed(sl.Elem(), "servitor/pub", "Tangible") {
					fns = append(fns, sc)
				}
			}
		})
	}
	n := 0
	for _, f := range fns {
		eachInstr(f, func(_ *ssa.BasicBlock, _ int, in ssa.Instruction) {
			st, ok := in.(*ssa.Store)
			if !ok {
				return
			}
			slot := false
			addr := unwrapLoad(st.Addr) // a slot pointer kept in a local (`slot := &output[i]`) is that slot
			if ia, ok := addr.(*ssa.IndexAddr); ok {
				if sl, ok := ia.X.Type().Underlying().(*types.Slice); ok && isNamed(sl.Elem(), "servitor/pub", "Tangible") {
					slot = true
				}
			}
			if p, ok := addr.(*ssa.Parameter); ok {
				if pt, ok := p.Type().Underlying().(*types.Pointer); ok && isNamed(pt.Elem(), "servitor/pub", "Tangible") {
					slot = true
				}
			}
			if !slot {
				return
			}
			n++
			why := ""
			var origin func(v ssa.Value, d int) bool
			origin = func(v ssa.Value, d int) bool {
				if d > 6 {
					return false
				}
				switch x := unwrapLoad(v).(type) {
				case *ssa.MakeInterface:
					return origin(x.X, d+1)
				case *ssa.ChangeInterface:
					return origin(x.X, d+1)
				case *ssa.Phi:
					for _, e := range x.Edges {
						if !origin(e, d+1) {
							return false
						}
					}
					return true
				case *ssa.Extract:
					return origin(x.Tuple, d+1)
				case *ssa.Call:
					if sc := x.Call.StaticCallee(); sc != nil && P.PkgOf(sc) == "servitor/pub" && (sc.Name() == "NewActor" || sc.Name() == "NewFailure" || sc.Name() == "NewActorFromObject") {
						return true
					}
					if sc := x.Call.StaticCallee(); sc != nil {
						why = "it comes from " + FuncName(sc)
					}
				}
				return false
			}
			okV := origin(st.Val, 0)
			if !okV && why == "" {
				why = "its origin is not a constructor call"
			}
			c.check(okV, fname+"/element", P.InstrPos(in), FuncName(f), "an actor (NewActor) or an error item (NewFailure)",
				"what is listed as an author or recipient is not the result of NewActor or NewFailure ("+why+"): an item of another kind passes the same-host test of the creators, which looks at actors only, and its name is shown as the author")
		})
	}
	if n == 0 {
		c.bad(fname+"/element", P.Pos(fn.Pos()), fname, "getActors no longer fills a list of items element by element")
	}
}
