package main

import (
	"fmt"
	"go/constant"
	"go/token"
	"go/types"
	"sort"

	"golang.org/x/tools/go/ssa"
)

// C12.R6 — the printed label is the number. style.superscript turns the link
// number into the characters shown next to the link; the reader types the
// digits they see. Two structural facts are necessary for the label to name
// the link: the digit table maps digit k to the Unicode superscript of k, and
// the digits come out most significant first. Both are visible in the shape
// of the code:
//
//	table   a function from rune/int to rune/string made of `case k: return c`
//	        arms, or a package-level array initialised with constants
//	order   strings.Map(table, decimal(value))                      in order
//	        for _, r := range decimal(value) { out += table(r) }    in order
//	        for v > 0 { out = table[v%10] + out; v /= 10 }          in order
//	        ... out += table[v%10] ...                              REVERSED
//
// where decimal is strconv.Itoa / FormatInt(…, 10) / fmt.Sprint / Sprintf("%d").
// Any other shape is reported as not established.

var superscriptDigits = [10]rune{0x2070, 0x00B9, 0x00B2, 0x00B3, 0x2074, 0x2075, 0x2076, 0x2077, 0x2078, 0x2079}

func c12R6(c *Ctx) {
	P := c.P
	fn := P.FuncOpt("servitor/style", "superscript")
	if fn == nil || len(fn.Params) != 1 || !isInteger(fn.Params[0].Type()) {
		c.bad("servitor/style.superscript", "style", "servitor/style", "the function that turns a link number into its printed label (style.superscript(int) string) is not found: that the label shows the number cannot be established")
		return
	}
	fname := FuncName(fn)
	pos := P.Pos(fn.Pos())
	param := ssa.Value(fn.Params[0])

	// the label functions print the number on every path: what style.Link and
	// style.LinkBlock return always contains superscript(number) of their own
	// number — a link whose text is empty still uses up a number (seed C12-1r9:
	// `if text == "" { return "" }` makes the shown numbers skip one)
	for _, lname := range []string{"Link", "LinkBlock"} {
		lf := P.FuncOpt("servitor/style", lname)
		if lf == nil || len(lf.Params) < 2 {
			continue
		}
		num := ssa.Value(lf.Params[len(lf.Params)-1])
		var has func(v ssa.Value, d int) bool
		has = func(v ssa.Value, d int) bool {
			if d > 8 {
				return false
			}
			v = stripStringConv(unwrapLoad(v))
			switch x := v.(type) {
			case *ssa.BinOp:
				return x.Op == token.ADD && (has(x.X, d+1) || has(x.Y, d+1))
			case *ssa.Phi:
				for _, e := range x.Edges {
					if !has(e, d+1) {
						return false
					}
				}
				return len(x.Edges) > 0
			case *ssa.Call:
				sc := x.Call.StaticCallee()
				if sc == nil {
					return false
				}
				if sc == fn {
					return unwrapLoad(x.Call.Args[0]) == num
				}
				if (sc.Name() == "Link" || sc.Name() == "LinkBlock") && P.PkgOf(sc) == "servitor/style" {
					return unwrapLoad(x.Call.Args[len(x.Call.Args)-1]) == num
				}
				// functions of the style layer keep every character of their text argument
				if inStyleLayer(sc) && len(x.Call.Args) > 0 && isStringType(x.Call.Args[0].Type()) {
					return has(x.Call.Args[0], d+1)
				}
			}
			return false
		}
		for _, b := range lf.Blocks {
			ret, ok := b.Instrs[len(b.Instrs)-1].(*ssa.Return)
			if !ok || len(ret.Results) != 1 {
				continue
			}
			c.check(has(ret.Results[0], 0), FuncName(lf)+"/prints-number", P.InstrPos(ret), FuncName(lf), "the label contains superscript(number) on this return", "style."+lname+" can return a label that does not contain its number: the link still takes a number, so the numbers shown skip one and the target can be opened by a number that is labelled nowhere")
		}
	}

	isDecimal := func(v ssa.Value) bool {
		call, ok := unwrapLoad(v).(*ssa.Call)
		if !ok {
			return false
		}
		arg := func(i int) ssa.Value {
			a := call.Call.Args[i]
			for {
				switch x := a.(type) {
				case *ssa.Convert:
					a = x.X
					continue
				case *ssa.ChangeType:
					a = x.X
					continue
				case *ssa.MakeInterface:
					a = x.X
					continue
				}
				return a
			}
		}
		switch {
		case isLibCall(&call.Call, "strconv", "", "Itoa"):
			return arg(0) == param
		case isLibCall(&call.Call, "strconv", "", "FormatInt"), isLibCall(&call.Call, "strconv", "", "FormatUint"):
			base, ok := constInt(call.Call.Args[1])
			return ok && base == 10 && arg(0) == param
		case isLibCall(&call.Call, "fmt", "", "Sprint"):
			elems, ok := variadicElements(call.Call.Args[0])
			return ok && len(elems) == 1 && stripIface(elems[0]) == param
		case isLibCall(&call.Call, "fmt", "", "Sprintf"):
			f, ok := constString(call.Call.Args[0])
			if !ok || f != "%d" {
				return false
			}
			elems, ok := variadicElements(call.Call.Args[1])
			return ok && len(elems) == 1 && stripIface(elems[0]) == param
		}
		return false
	}

	// --- the table
	var table map[int64]int64 // digit 0..9 -> code point
	tableWhy := "no digit table found"
	useTableFn := func(f *ssa.Function) {
		if t, why := switchTable(f); t != nil {
			table = t
			return
		} else {
			tableWhy = why
		}
		// a package-level table consulted by the function
		eachInstr(f, func(_ *ssa.BasicBlock, _ int, in ssa.Instruction) {
			if table != nil {
				return
			}
			var g *ssa.Global
			switch x := in.(type) {
			case *ssa.Lookup:
				if ld, ok := x.X.(*ssa.UnOp); ok && ld.Op == token.MUL {
					g, _ = ld.X.(*ssa.Global)
				}
			case *ssa.IndexAddr:
				g, _ = x.X.(*ssa.Global)
				if ld, ok := x.X.(*ssa.UnOp); ok && ld.Op == token.MUL && g == nil {
					g, _ = ld.X.(*ssa.Global)
				}
			}
			if g == nil {
				return
			}
			if t, why := globalTable(g); t != nil {
				table = t
			} else {
				tableWhy = why
			}
		})
	}
	var order string // "in order", "reversed", or "" (not established)
	orderWhy := "the label is not built in one of the shapes that are followed (strings.Map over the decimal digits, a loop over them appending, or a divide-by-ten loop prepending)"

	var rets []*ssa.Return
	eachInstr(fn, func(_ *ssa.BasicBlock, _ int, in ssa.Instruction) {
		if r, ok := in.(*ssa.Return); ok {
			rets = append(rets, r)
		}
	})
	// shape 1: strings.Map(table, decimal(value))
	if len(rets) == 1 && len(rets[0].Results) == 1 {
		if call, ok := rets[0].Results[0].(*ssa.Call); ok && isLibCall(&call.Call, "strings", "", "Map") {
			var f *ssa.Function
			switch x := call.Call.Args[0].(type) {
			case *ssa.Function:
				f = x
			case *ssa.MakeClosure:
				f, _ = x.Fn.(*ssa.Function)
			}
			if f != nil {
				useTableFn(f)
			}
			if isDecimal(call.Call.Args[1]) {
				order = "in order"
			} else {
				orderWhy = "strings.Map is not applied to the decimal representation of the number itself"
			}
		}
	}
	// shapes 2 and 3: one loop
	if order == "" {
		order, orderWhy = digitLoopOrder(P, fn, isDecimal, orderWhy)
		// the table: a function called with the digit, or a package-level array
		eachInstr(fn, func(_ *ssa.BasicBlock, _ int, in ssa.Instruction) {
			if table != nil {
				return
			}
			switch x := in.(type) {
			case *ssa.Call:
				if sc := x.Call.StaticCallee(); sc != nil && sc.Pkg != nil && sc.Pkg.Pkg.Path() == "servitor/style" && len(sc.Params) == 1 {
					useTableFn(sc)
				}
			case *ssa.IndexAddr:
				if g, ok := x.X.(*ssa.Global); ok {
					if t, why := globalTable(g); t != nil {
						table = t
					} else {
						tableWhy = why
					}
				}
			case *ssa.Phi:
				if raw, _ := phiTable(x); raw != nil {
					if t, why := normaliseDigitKeys(raw); t != nil {
						table = t
					} else {
						tableWhy = why
					}
				}
			case *ssa.Index:
				if s, ok := constString(x.X); ok {
					_ = s
					tableWhy = "digits taken from a string constant by byte index (superscripts are multi-byte)"
				}
			}
		})
	}
	okTable := table != nil
	if okTable {
		for k := int64(0); k < 10; k++ {
			got, has := table[k]
			if !has {
				okTable, tableWhy = false, fmt.Sprintf("digit %d has no superscript", k)
				break
			}
			if got != int64(superscriptDigits[k]) {
				okTable, tableWhy = false, fmt.Sprintf("digit %d is printed as U+%04X, the superscript of %d is U+%04X", k, got, k, superscriptDigits[k])
				break
			}
		}
	}
	c.check(okTable, fname+"/digit-table", pos, fname, "digit k is printed as the Unicode superscript of k, for all ten digits", "the digit table of the link labels is wrong or not found ("+tableWhy+"): the label shown next to a link is not the number that selects it")
	switch order {
	case "in order":
		c.ok(fname+"/digit-order", pos, fname, "the decimal digits are emitted most significant first")
	case "reversed":
		c.bad(fname+"/digit-order", pos, fname, "the digits of a link label are emitted least significant first ("+orderWhy+"): link 12 is labelled ²¹ and typing what is shown opens another link")
	default:
		c.bad(fname+"/digit-order", pos, fname, "that the digits of a link label come out most significant first cannot be established: "+orderWhy)
	}
}

func stripIface(v ssa.Value) ssa.Value {
	for {
		switch x := v.(type) {
		case *ssa.MakeInterface:
			v = x.X
		case *ssa.Convert:
			v = x.X
		case *ssa.ChangeType:
			v = x.X
		default:
			return v
		}
	}
}

// switchTable: f(x) is a chain of `x == const` tests, each returning a
// constant; keys '0'..'9' or 0..9 are normalised to 0..9, values to the code
// point (a rune, or a string of one rune).
func switchTable(f *ssa.Function) (map[int64]int64, string) {
	if len(f.Params) != 1 || len(f.Blocks) == 0 {
		return nil, "the digit function has no body or not one parameter"
	}
	p := ssa.Value(f.Params[0])
	raw := map[int64]int64{}
	bad := ""
	eachInstr(f, func(b *ssa.BasicBlock, _ int, in ssa.Instruction) {
		ret, ok := in.(*ssa.Return)
		if !ok || len(ret.Results) < 1 {
			return
		}
		val, okV := constCodePoint(ret.Results[0])
		if !okV {
			return // default arm / panic path / computed value
		}
		// the single equality that leads here
		if len(b.Preds) != 1 {
			return
		}
		pred := b.Preds[0]
		iff, ok := pred.Instrs[len(pred.Instrs)-1].(*ssa.If)
		if !ok || pred.Succs[0] != b {
			return
		}
		cmp, ok := iff.Cond.(*ssa.BinOp)
		if !ok || cmp.Op != token.EQL {
			return
		}
		var key int64
		if unwrapLoad(cmp.X) == p {
			k, ok := constInt(cmp.Y)
			if !ok {
				return
			}
			key = k
		} else if unwrapLoad(cmp.Y) == p {
			k, ok := constInt(cmp.X)
			if !ok {
				return
			}
			key = k
		} else {
			return
		}
		if _, dup := raw[key]; dup {
			bad = "a digit has two arms"
		}
		raw[key] = val
	})
	if bad != "" {
		return nil, bad
	}
	return normaliseDigitKeys(raw)
}

// phiTable: a phi of constants, each edge coming from the arm of an equality
// test of one subject against a constant (a switch written in place).
func phiTable(ph *ssa.Phi) (map[int64]int64, ssa.Value) {
	raw := map[int64]int64{}
	var subject ssa.Value
	for i, e := range ph.Edges {
		val, ok := constCodePoint(e)
		if !ok {
			return nil, nil
		}
		b := ph.Block().Preds[i]
		// walk up through empty single-predecessor blocks to the deciding If
		for hop := 0; hop < 3; hop++ {
			if len(b.Preds) != 1 {
				return nil, nil
			}
			pred := b.Preds[0]
			iff, ok := pred.Instrs[len(pred.Instrs)-1].(*ssa.If)
			if !ok {
				b = pred
				continue
			}
			if pred.Succs[0] != b {
				return nil, nil
			}
			cmp, ok := iff.Cond.(*ssa.BinOp)
			if !ok || cmp.Op != token.EQL {
				return nil, nil
			}
			k, okK := constInt(cmp.Y)
			if !okK {
				return nil, nil
			}
			if subject == nil {
				subject = cmp.X
			} else if subject != cmp.X {
				return nil, nil
			}
			if _, dup := raw[k]; dup {
				return nil, nil
			}
			raw[k] = val
			b = nil
			break
		}
		if b != nil {
			return nil, nil
		}
	}
	if len(raw) == 0 {
		return nil, nil
	}
	return raw, subject
}

func normaliseDigitKeys(raw map[int64]int64) (map[int64]int64, string) {
	if len(raw) == 0 {
		return nil, "no `case digit: return constant` arms found"
	}
	out := map[int64]int64{}
	keys := make([]int64, 0, len(raw))
	for k := range raw {
		keys = append(keys, k)
	}
	sort.Slice(keys, func(i, j int) bool { return keys[i] < keys[j] })
	off := int64(0)
	if keys[0] >= '0' {
		off = '0'
	}
	for _, k := range keys {
		d := k - off
		if d < 0 || d > 9 {
			return nil, fmt.Sprintf("an arm for %d, which is not a digit", k)
		}
		out[d] = raw[k]
	}
	return out, ""
}

// constCodePoint: a constant rune/integer, or a constant string of exactly one rune.
func constCodePoint(v ssa.Value) (int64, bool) {
	cst, ok := v.(*ssa.Const)
	if !ok || cst.Value == nil {
		return 0, false
	}
	if cst.Value.Kind() == constant.String {
		rs := []rune(constant.StringVal(cst.Value))
		if len(rs) != 1 {
			return 0, false
		}
		return int64(rs[0]), true
	}
	if b, ok := cst.Type().Underlying().(*types.Basic); ok && b.Info()&types.IsInteger != 0 {
		return constInt(cst)
	}
	return 0, false
}

// globalTable: a package-level array/slice whose elements are stored once, as
// constants, by the package initialiser and by nobody else.
func globalTable(g *ssa.Global) (map[int64]int64, string) {
	if g.Pkg == nil {
		return nil, "the digit table is not a variable of the package"
	}
	raw := map[int64]int64{}
	bad := ""
	if _, isMap := deref(g.Type()).Underlying().(*types.Map); isMap {
		return globalMapTable(g)
	}
	for _, m := range g.Pkg.Members {
		f, ok := m.(*ssa.Function)
		if !ok {
			continue
		}
		var fns []*ssa.Function
		fns = append(fns, f)
		fns = append(fns, f.AnonFuncs...)
		for _, ff := range fns {
			eachInstr(ff, func(_ *ssa.BasicBlock, _ int, in ssa.Instruction) {
				st, ok := in.(*ssa.Store)
				if !ok {
					return
				}
				ia, ok := st.Addr.(*ssa.IndexAddr)
				if !ok {
					if st.Addr == ssa.Value(g) && ff.Name() != "init" {
						bad = "the digit table is reassigned in " + ff.Name()
					}
					return
				}
				root := ia.X
				if sl, ok := root.(*ssa.Slice); ok {
					root = sl.X
				}
				if al, ok := root.(*ssa.Alloc); ok {
					// a slice literal: new [n]T filled, then stored into g
					stored := false
					for _, r := range refs(al) {
						if s2, ok := r.(*ssa.Slice); ok {
							for _, rr := range refs(s2) {
								if st2, ok := rr.(*ssa.Store); ok && st2.Addr == ssa.Value(g) {
									stored = true
								}
							}
						}
					}
					if !stored {
						return
					}
				} else if root != ssa.Value(g) {
					return
				}
				if ff.Name() != "init" {
					bad = "the digit table is written in " + ff.Name()
					return
				}
				k, okK := constInt(ia.Index)
				v, okV := constCodePoint(st.Val)
				if !okK || !okV {
					bad = "an element of the digit table is not a constant of one character"
					return
				}
				raw[k] = v
			})
		}
	}
	if bad != "" {
		return nil, bad
	}
	return normaliseDigitKeys(raw)
}

// globalMapTable: a package-level map made and filled with constants by the
// package initialiser, never updated elsewhere.
func globalMapTable(g *ssa.Global) (map[int64]int64, string) {
	raw := map[int64]int64{}
	bad := ""
	var made ssa.Value
	for _, m := range g.Pkg.Members {
		f, ok := m.(*ssa.Function)
		if !ok {
			continue
		}
		fns := append([]*ssa.Function{f}, f.AnonFuncs...)
		for _, ff := range fns {
			eachInstr(ff, func(_ *ssa.BasicBlock, _ int, in ssa.Instruction) {
				switch x := in.(type) {
				case *ssa.Store:
					if x.Addr == ssa.Value(g) {
						if ff.Name() != "init" || made != nil {
							bad = "the digit table is assigned more than once"
						}
						made = x.Val
					}
				case *ssa.MapUpdate:
					if ld, ok := x.Map.(*ssa.UnOp); ok && ld.Op == token.MUL && ld.X == ssa.Value(g) {
						bad = "the digit table is updated in " + ff.Name()
					}
				}
			})
		}
	}
	mk, ok := made.(*ssa.MakeMap)
	if !ok || bad != "" {
		if bad == "" {
			bad = "the digit table is not a map literal"
		}
		return nil, bad
	}
	for _, r := range refs(mk) {
		switch x := r.(type) {
		case *ssa.MapUpdate:
			k, okK := constInt(x.Key)
			v, okV := constCodePoint(x.Value)
			if !okK || !okV {
				return nil, "an entry of the digit table is not a constant of one character"
			}
			if _, dup := raw[k]; dup {
				return nil, "a digit has two entries"
			}
			raw[k] = v
		case *ssa.Store:
			if x.Addr != ssa.Value(g) {
				return nil, "the digit table is shared with another variable"
			}
		default:
			return nil, "the digit table literal is used for something else in the initialiser"
		}
	}
	return normaliseDigitKeys(raw)
}

// digitLoopOrder: the label is accumulated in one loop.
func digitLoopOrder(P *Program, fn *ssa.Function, isDecimal func(ssa.Value) bool, deflt string) (string, string) {
	var H *ssa.BasicBlock
	n := 0
	for _, b := range fn.Blocks {
		for _, p := range b.Preds {
			if b.Dominates(p) {
				H = b
				n++
				break
			}
		}
	}
	if n != 1 {
		return "", deflt
	}
	param := ssa.Value(fn.Params[0])
	// which kind of loop: over the decimal string, or dividing by ten
	overDecimal, dividing := false, false
	eachInstr(fn, func(_ *ssa.BasicBlock, _ int, in ssa.Instruction) {
		switch x := in.(type) {
		case *ssa.Range:
			if isDecimal(x.X) {
				overDecimal = true
			}
		case *ssa.BinOp:
			if x.Op == token.QUO {
				if k, ok := constInt(x.Y); ok && k == 10 {
					dividing = true
				}
			}
		}
	})
	// derived from the number: the value, or a header phi fed by value / 10
	onStack := map[*ssa.Phi]bool{}
	var fromNumber func(v ssa.Value, d int) bool
	fromNumber = func(v ssa.Value, d int) bool {
		if d > 8 {
			return false
		}
		switch x := stripIface(unwrapLoad(v)).(type) {
		case *ssa.Parameter:
			return ssa.Value(x) == param
		case *ssa.Phi:
			if onStack[x] {
				return true // round the loop: decided by the other edges
			}
			onStack[x] = true
			defer delete(onStack, x)
			for _, e := range x.Edges {
				if !fromNumber(e, d+1) {
					return false
				}
			}
			return true
		case *ssa.BinOp:
			if x.Op == token.QUO {
				if k, ok := constInt(x.Y); ok && k == 10 {
					return fromNumber(x.X, d+1)
				}
			}
		}
		return false
	}
	// the digit operand: depends on (number-derived % 10), or on the rune of the range
	var digitish func(v ssa.Value, d int) bool
	digitish = func(v ssa.Value, d int) bool {
		if d > 10 || v == nil {
			return false
		}
		switch x := v.(type) {
		case *ssa.BinOp:
			if x.Op == token.REM {
				if k, ok := constInt(x.Y); ok && k == 10 && fromNumber(x.X, 0) {
					return true
				}
			}
			return digitish(x.X, d+1) || digitish(x.Y, d+1)
		case *ssa.Extract:
			if nx, ok := x.Tuple.(*ssa.Next); ok && nx.IsString && x.Index == 2 {
				if rg, ok := nx.Iter.(*ssa.Range); ok && isDecimal(rg.X) {
					return true
				}
			}
		case *ssa.UnOp:
			return digitish(x.X, d+1)
		case *ssa.IndexAddr:
			return digitish(x.Index, d+1)
		case *ssa.Index:
			return digitish(x.Index, d+1)
		case *ssa.Convert:
			return digitish(x.X, d+1)
		case *ssa.ChangeType:
			return digitish(x.X, d+1)
		case *ssa.Call:
			for _, a := range x.Call.Args {
				if digitish(a, d+1) {
					return true
				}
			}
		case *ssa.Phi:
			if raw, subj := phiTable(x); raw != nil {
				return digitish(subj, d+1)
			}
			if x.Block() != H {
				for _, e := range x.Edges {
					if digitish(e, d+1) {
						return true
					}
				}
			}
		}
		return false
	}
	appendSeen, prependSeen, other := false, false, ""
	nAcc := 0
	for _, in := range H.Instrs {
		ph, ok := in.(*ssa.Phi)
		if !ok {
			break
		}
		if !isStringType(ph.Type()) {
			continue
		}
		nAcc++
		for k, pred := range H.Preds {
			if !H.Dominates(pred) {
				continue
			}
			// the value carried round the loop, through inner phis
			var classify func(v ssa.Value, d int)
			classify = func(v ssa.Value, d int) {
				if d > 6 {
					other = "the accumulated label is too involved to follow"
					return
				}
				switch x := v.(type) {
				case *ssa.Phi:
					if x == ph {
						return // unchanged on this way round
					}
					for _, e := range x.Edges {
						classify(e, d+1)
					}
				case *ssa.BinOp:
					if x.Op != token.ADD {
						other = "unexpected string operation at " + P.InstrPos(x)
						return
					}
					switch {
					case x.X == ssa.Value(ph) && digitish(x.Y, 0):
						appendSeen = true
					case x.Y == ssa.Value(ph) && digitish(x.X, 0):
						prependSeen = true
					default:
						other = "the label grows at " + P.InstrPos(x) + " by something that is not recognisably one digit of the number"
					}
				default:
					other = "the label is carried round the loop as " + v.String()
				}
			}
			classify(ph.Edges[k], 0)
		}
	}
	if nAcc == 0 && other == "" {
		// the label accumulated in a strings.Builder: it only ever grows at its end, so each
		// trip appends; every write in the loop must be a digit of the number, and the
		// function must return that builder's String()
		var builder ssa.Value
		okWrites, nWrites := true, 0
		eachInstr(fn, func(b *ssa.BasicBlock, _ int, in ssa.Instruction) {
			call, ok := in.(*ssa.Call)
			if !ok {
				return
			}
			sc := call.Call.StaticCallee()
			if sc == nil || sc.Pkg == nil || sc.Pkg.Pkg.Path() != "strings" || sc.Signature.Recv() == nil || !isNamed(sc.Signature.Recv().Type(), "strings", "Builder") {
				return
			}
			recv := call.Call.Args[0]
			switch sc.Name() {
			case "WriteRune", "WriteString", "WriteByte":
				if builder != nil && builder != recv {
					okWrites = false
				}
				builder = recv
				if H.Dominates(b) && blockReaches(b, H) {
					nWrites++
					if !digitish(call.Call.Args[1], 0) {
						okWrites = false
					}
				} else {
					okWrites = false // something else is written into the label
				}
			}
		})
		returnsIt := false
		eachInstr(fn, func(_ *ssa.BasicBlock, _ int, in ssa.Instruction) {
			if r, ok := in.(*ssa.Return); ok && len(r.Results) == 1 {
				if call, ok := r.Results[0].(*ssa.Call); ok {
					if sc := call.Call.StaticCallee(); sc != nil && sc.Name() == "String" && len(call.Call.Args) == 1 && call.Call.Args[0] == builder {
						returnsIt = true
					}
				}
			}
		})
		if builder != nil && okWrites && nWrites > 0 && returnsIt {
			nAcc, appendSeen = 1, true
		}
	}
	if nAcc != 1 || other != "" {
		if other == "" {
			other = fmt.Sprintf("%d strings are carried round the loop where one accumulated label is expected", nAcc)
		}
		return "", other
	}
	switch {
	case overDecimal && appendSeen && !prependSeen:
		return "in order", ""
	case overDecimal && prependSeen:
		return "reversed", "the loop walks the decimal digits from the left and puts each in front of the label"
	case dividing && !overDecimal && prependSeen && !appendSeen:
		return "in order", ""
	case dividing && !overDecimal && appendSeen:
		return "reversed", "the loop takes the last digit (number % 10) first and appends it behind the label"
	}
	return "", deflt
}

// c12R7: the renderers print the numbers of a list of links only when the
// error stored next to it is nil (`supplement` shows "failed to load
// attachments", `center` the problem of the body), but `SelectLink` looks at
// the lists alone. Both agree as long as a list that comes with an error is
// empty: for every store of result #i of a call into a slice-typed field of
// Post / Actor that has an error sibling filled from the same call, every
// return of the callee whose error may be non-nil returns nil or an empty
// slice at #i (seeds C12-1r7 / C07-2r7: `getLinks` handed out the links
// converted so far, or a nil-padded slice, next to its error).
func c12R7(c *Ctx) {
	P := c.P
	var emptyList func(v ssa.Value, d int) bool
	emptyList = func(v ssa.Value, d int) bool {
		v = unwrapLoad(v)
		if isNilConst(v) {
			return true
		}
		switch x := v.(type) {
		case *ssa.MakeSlice:
			k, ok := constInt(x.Len)
			return ok && k == 0
		case *ssa.Slice:
			if al, ok := x.X.(*ssa.Alloc); ok {
				if arr, ok := deref(al.Type()).Underlying().(*types.Array); ok {
					return arr.Len() == 0
				}
			}
		case *ssa.Phi:
			if d > 3 {
				return false
			}
			for _, e := range x.Edges {
				if !emptyList(e, d+1) {
					return false
				}
			}
			return true
		}
		return false
	}
	var producerOK func(fn *ssa.Function, idx int, d int) (bool, string)
	producerOK = func(fn *ssa.Function, idx int, d int) (bool, string) {
		if d > 5 || len(fn.Blocks) == 0 {
			return false, "producer " + FuncName(fn) + " cannot be followed"
		}
		nres := fn.Signature.Results().Len()
		for _, b := range fn.Blocks {
			ret, ok := b.Instrs[len(b.Instrs)-1].(*ssa.Return)
			if !ok || len(ret.Results) != nres || idx >= nres {
				continue
			}
			errV := ret.Results[nres-1]
			if isNilConst(errV) || knownNil(errV, b) {
				continue
			}
			v := ret.Results[idx]
			if emptyList(v, 0) {
				continue
			}
			// handed on from another producer, error and all
			if ex, ok := v.(*ssa.Extract); ok {
				if call, ok := ex.Tuple.(*ssa.Call); ok {
					if ee, ok := errV.(*ssa.Extract); ok && ee.Tuple == ex.Tuple {
						// statically, or through a table of constructors: every possible callee
						callees := P.Callees(call)
						okAll, why := len(callees) > 0, "the producer called at "+P.InstrPos(call)+" is unknown"
						for _, callee := range callees {
							if !P.IsServitorFunc(callee) {
								okAll, why = false, "the producer "+FuncName(callee)+" is not part of the module"
								break
							}
							if ok2, w := producerOK(callee, ex.Index, d+1); !ok2 {
								okAll, why = false, w
								break
							}
						}
						if okAll {
							continue
						}
						return false, why
					}
				}
			}
			return false, FuncName(fn) + " returns a list that is not known to be empty together with an error at " + P.InstrPos(ret)
		}
		return true, ""
	}
	for _, tn := range []string{"Post", "Actor"} {
		owner := P.NamedType("servitor/pub", tn)
		for _, fn := range P.FuncsIn("servitor/pub") {
			eachInstr(fn, func(b *ssa.BasicBlock, _ int, in ssa.Instruction) {
				st, ok := in.(*ssa.Store)
				if !ok {
					return
				}
				fa, ok := st.Addr.(*ssa.FieldAddr)
				if !ok || structOwner(fa) != owner {
					return
				}
				f := fieldOf(fa)
				if _, isSlice := f.Type().Underlying().(*types.Slice); !isSlice {
					return
				}
				ef := errSibling(f, owner)
				if ef == nil {
					return
				}
				ex, ok := st.Val.(*ssa.Extract)
				if !ok {
					return
				}
				call, ok := ex.Tuple.(*ssa.Call)
				if !ok {
					return
				}
				// the error of the same call goes into the sibling
				paired := false
				for _, in2 := range b.Instrs {
					if st2, ok := in2.(*ssa.Store); ok {
						if fa2, ok := st2.Addr.(*ssa.FieldAddr); ok && fieldOf(fa2) == ef {
							if ex2, ok := st2.Val.(*ssa.Extract); ok && ex2.Tuple == ex.Tuple {
								paired = true
							}
						}
					}
				}
				if !paired {
					return
				}
				okAll, why := true, ""
				for _, callee := range P.Callees(call) {
					if !P.IsServitorFunc(callee) {
						okAll, why = false, "the producer "+FuncName(callee)+" is not part of the module"
						continue
					}
					if ok2, w := producerOK(callee, ex.Index, 0); !ok2 {
						okAll, why = false, w
					}
				}
				c.check(okAll, FuncName(fn)+"/list-with-error:"+tn+"."+f.Name(), P.InstrPos(in), FuncName(fn),
					"("+f.Name()+", "+ef.Name()+"): the list is empty whenever the error is set", "("+f.Name()+", "+ef.Name()+"): "+why+" — the renderer shows no numbers for this list when the error is set, but SelectLink selects from it")
			})
		}
	}
}

// c12R9: how a link number gets into the buffer that SelectLink's caller
// parses. (i) The branch of Update that takes digits is guarded by exactly
// '0' <= input <= '9' — a number such as 10 cannot be typed without the 0.
// (ii) On every path through that branch the mode stored is `selection`, and
// the buffer stored is string(input) appended to "" where the mode was not
// selection before (whatever the buffer held — in opening mode it holds the
// link being opened), and to the buffer itself where it was.
func c12R9(c *Ctx) {
	P := c.P
	upd := P.Method("servitor/ui", "State", "Update")
	input := upd.Params[1]
	fname := FuncName(upd)
	selK, ok := P.Package("servitor/ui").Types.Scope().Lookup("selection").(*types.Const)
	if !ok {
		c.bad(fname+"/digits", P.Pos(upd.Pos()), fname, "the mode constant selection is not found")
		return
	}
	sel, _ := constant.Int64Val(selK.Val())
	modeF := P.Field("servitor/ui", "State", "mode")
	// (i) the guard
	var D *ssa.BasicBlock
	var Ds []*ssa.BasicBlock
	var at ssa.Instruction
	lo, hi := int64(-1), int64(-1)
	okRange := true
	bound := func(cmp Cmp) (isLower bool, k int64, ok bool) {
		x, y, op := cmp.X, cmp.Y, cmp.Op
		if unwrapLoad(y) == ssa.Value(input) {
			x, y, op = y, x, flipOp(op)
		}
		if unwrapLoad(x) != ssa.Value(input) {
			return false, 0, false
		}
		k, isC := constInt(y)
		if !isC {
			return false, 0, false
		}
		switch op {
		case token.GEQ:
			return true, k, true
		case token.GTR:
			return true, k + 1, true
		case token.LEQ:
			return false, k, true
		case token.LSS:
			return false, k - 1, true
		}
		return false, 0, false
	}
	for _, b := range upd.Blocks {
		iff, isIf := b.Instrs[len(b.Instrs)-1].(*ssa.If)
		if !isIf {
			continue
		}
		f := Fact{Cond: iff.Cond, Truth: true}
		cmp, isCmp := f.Cmp()
		if !isCmp {
			continue
		}
		isLower, k, okB := bound(cmp)
		if !okB || k < 32 || k > 70 {
			continue
		}
		// the other bound among the facts in front of this test
		for _, g := range factsOf(upd).At(b) {
			gc, isCmp := g.Cmp()
			if !isCmp {
				continue
			}
			l2, k2, ok2 := bound(gc)
			if !ok2 || l2 == isLower || k2 < 32 || k2 > 70 {
				continue
			}
			if isLower {
				lo, hi = k, k2
			} else {
				lo, hi = k2, k
			}
			if lo != '0' || hi != '9' {
				okRange = false
			}
			D, at = b.Succs[0], iff
			Ds = append(Ds, D)
		}
	}
	if D == nil {
		c.bad(fname+"/digits", P.Pos(upd.Pos()), fname, "the branch of Update that takes the digits of a link number (a range test on the key) is not found")
		return
	}
	c.check(okRange && lo == '0' && hi == '9', fname+"/digits", P.InstrPos(at), fname, "digits are the keys '0' to '9'",
		fmt.Sprintf("the keys taken as digits of a link number are %q to %q, not '0' to '9': numbers that contain the missing digits are shown next to links but cannot be typed", rune(lo), rune(hi)))
	// (ii) what the branch does
	n := 0
	modeFact := func(facts []Fact) (wasSelection, known bool) {
		for _, f := range facts {
			fc, ok := f.Cmp()
			if !ok {
				continue
			}
			for _, side := range [][2]ssa.Value{{fc.X, fc.Y}, {fc.Y, fc.X}} {
				ld, ok := side[0].(*ssa.UnOp)
				if !ok || ld.Op != token.MUL {
					continue
				}
				fa, ok := ld.X.(*ssa.FieldAddr)
				k, isK := constInt(side[1])
				if !ok || !isK || fieldOf(fa) != modeF {
					continue
				}
				if k == sel {
					known = true
					wasSelection = fc.Op == token.EQL
				} else if fc.Op == token.EQL {
					known, wasSelection = true, false // the mode is known to be another one
				}
			}
		}
		return
	}
	for _, D := range Ds {
		domSel, domKnown := modeFact(factsOf(upd).At(D))
		// a store to the mode on the way here (`s.mode = normal` before the plain keymap is tried again) decides over older tests
		var doms []*ssa.BasicBlock
		for _, b := range upd.Blocks {
			if b != D && b.Dominates(D) {
				doms = append(doms, b)
			}
		}
		sort.Slice(doms, func(i, j int) bool { return doms[i] != doms[j] && doms[i].Dominates(doms[j]) }) // a chain: outermost first
		for _, b := range doms {
			for _, in := range b.Instrs {
				st, ok := in.(*ssa.Store)
				if !ok {
					continue
				}
				if fa, ok := st.Addr.(*ssa.FieldAddr); ok && fieldOf(fa) == modeF {
					if k, isK := constInt(st.Val); isK {
						domKnown, domSel = true, k == sel
					} else {
						domKnown = false
					}
				}
			}
		}
		for _, rb := range upd.Blocks {
			ret, isRet := rb.Instrs[len(rb.Instrs)-1].(*ssa.Return)
			if !isRet || !blockReaches(D, rb) && rb != D {
				continue // (a return shared with other branches is still where this one ends)
			}
			paths, _ := enumeratePathsFrom(upd, D, rb, 64)
			if rb == D {
				paths = []pathFacts{{blocks: []*ssa.BasicBlock{D}}}
			}
			for _, pf := range paths {
				e := effectOnPath(P, upd, pf, ret)
				n++
				where := "path through lines " + pathLines(P, pf)
				wasSelection, known := domSel, domKnown
				if ws, kn := modeFact(pf.facts); kn {
					wasSelection, known = ws, kn
				}
				mv, wroteMode := e.stored["mode"]
				okMode := false
				if wroteMode {
					if k, isK := constInt(mv); isK && k == sel {
						okMode = true
					}
				} else if known && wasSelection {
					okMode = true
				}
				c.check(okMode, fname+"/digit-mode", P.InstrPos(ret), fname, "the mode is selection after a digit ("+where+")", "after a digit the mode is not known to be selection: the number being typed is not what '.' or Enter will look up ("+where+")")
				okBuf, why := false, "the buffer is not extended by the digit"
				if bv, wrote := e.stored["buffer"]; wrote {
					if cv, isCv := e.lc.at(bv).(*ssa.Convert); isCv && unwrapLoad(cv.X) == ssa.Value(input) {
						// the digit alone: a fresh number
						okBuf = !(known && wasSelection)
						why = "the number typed so far is thrown away by a digit typed in selection mode"
					}
					if add, isAdd := e.lc.at(bv).(*ssa.BinOp); isAdd && add.Op == token.ADD {
						digit := false
						if cv, isCv := add.Y.(*ssa.Convert); isCv && unwrapLoad(cv.X) == ssa.Value(input) {
							digit = true
						}
						base := e.lc.at(add.X)
						if s, isS := constString(base); isS && s == "" && digit {
							okBuf = !(known && wasSelection) // a fresh number
							why = "the number typed so far is thrown away by a digit typed in selection mode"
						} else if ld, isLd := base.(*ssa.UnOp); isLd && ld.Op == token.MUL && digit {
							if f, ok := recvField(upd, ld.X); ok && f == "buffer" {
								okBuf = known && wasSelection
								why = "a digit typed outside selection mode is appended to whatever the buffer holds (in opening mode: the link that is being opened) instead of starting a number"
							}
						}
					}
				}
				c.check(okBuf, fname+"/digit-buffer", P.InstrPos(ret), fname, "the digit starts a number outside selection mode and extends it inside ("+where+")", why+" ("+where+")")
			}
		}
	}
	c.check(n > 0, fname+"/digit-paths", P.InstrPos(at), fname, fmt.Sprintf("%d paths through the digit branch", n), "no path through the digit branch could be followed")
}
