package main

import (
	"fmt"
	"go/token"
	"go/types"
	"sort"
	"strings"

	"golang.org/x/tools/go/ssa"
)

// E1 — whole-program value-flow graph over SSA with call/return matching.
//
// Nodes: SSA values, struct fields of servitor-declared structs (field-based),
// globals, the contents of local variables (mem), per-function result slots
// and out-parameter slots. Edges are labelled intra / call / return; summary
// edges (parameter -> result, parameter -> out-parameter) are computed to a
// fixpoint and added as intra edges at every call site. Reachability is the
// two-phase realizable-path traversal: phase 1 may ascend through return
// edges, phase 2 may descend through call edges; context-free heap cells
// (fields, globals, captured variables) restart phase 1.

type nodeKind int

const (
	nValue nodeKind = iota
	nField
	nGlobal
	nMem
	nRet
	nOut
)

type nodeKey struct {
	kind nodeKind
	v    ssa.Value     // nValue, nMem (alloc), nOut (parameter), nGlobal
	f    *types.Var    // nField
	fn   *ssa.Function // nRet
	idx  int           // nRet
}

type edgeKind uint8

const (
	eIntra edgeKind = iota
	eCall
	eRet
)

type flowEdge struct {
	to   int
	kind edgeKind
	site ssa.Instruction // the instruction that creates the flow (for witnesses)
}

type FlowConfig struct {
	// Carries: can a value of this type carry the tracked property at all?
	Carries func(t types.Type) bool
	// Opaque: servitor functions whose results are clean whatever goes in
	// (sanitisers); calls do not descend into them.
	Opaque map[*ssa.Function]bool
	// CleanLib: library calls whose results do not carry their arguments.
	CleanLib func(c *ssa.CallCommon) bool
	// IdentityOnly: track identity-preserving flow only: string operations
	// (concatenation, library transformations) are recorded as "transform"
	// hops so that rules can reject paths that contain one.
	MarkTransforms bool
}

type Flow struct {
	P     *Program
	cfg   FlowConfig
	ids   map[nodeKey]int
	keys  []nodeKey
	out   [][]flowEdge
	in    [][]flowEdge
	heap  []bool            // context-free cells
	xform map[[2]int]string // edge (from,to) -> description of a transforming hop
	fnOf  []*ssa.Function
}

func defaultCarries(t types.Type) bool {
	switch u := t.Underlying().(type) {
	case *types.Basic:
		info := u.Info()
		if info&types.IsString != 0 {
			return true
		}
		if u.Kind() == types.UnsafePointer || u.Kind() == types.UntypedNil || u.Kind() == types.Invalid {
			return true
		}
		return false // numbers, booleans
	case *types.Struct:
		// time.Time and friends carry no text
		if isNamed(t, "time", "Time") {
			return false
		}
		return true
	case *types.Tuple:
		return true
	}
	return true
}

func NewFlow(P *Program, cfg FlowConfig) *Flow {
	if cfg.Carries == nil {
		cfg.Carries = defaultCarries
	}
	f := &Flow{P: P, cfg: cfg, ids: map[nodeKey]int{}, xform: map[[2]int]string{}}
	for _, fn := range P.Funcs {
		f.buildFunc(fn)
	}
	f.addSummaries()
	return f
}

func (f *Flow) id(k nodeKey) int {
	if n, ok := f.ids[k]; ok {
		return n
	}
	n := len(f.keys)
	f.ids[k] = n
	f.keys = append(f.keys, k)
	f.out = append(f.out, nil)
	f.in = append(f.in, nil)
	heap := k.kind == nField || k.kind == nGlobal
	if k.kind == nMem {
		if a, ok := k.v.(*ssa.Alloc); ok && allocCaptured(a) {
			heap = true
		}
	}
	f.heap = append(f.heap, heap)
	var fn *ssa.Function
	switch k.kind {
	case nValue, nMem, nOut:
		if k.v != nil {
			fn = k.v.Parent()
		}
	case nRet:
		fn = k.fn
	}
	f.fnOf = append(f.fnOf, fn)
	return n
}

var capturedCache = map[*ssa.Alloc]bool{}

func allocCaptured(a *ssa.Alloc) bool {
	if v, ok := capturedCache[a]; ok {
		return v
	}
	res := false
	for _, r := range refs(a) {
		if _, ok := r.(*ssa.MakeClosure); ok {
			res = true
		}
	}
	capturedCache[a] = res
	return res
}

func (f *Flow) val(v ssa.Value) int      { return f.id(nodeKey{kind: nValue, v: v}) }
func (f *Flow) field(v *types.Var) int   { return f.id(nodeKey{kind: nField, f: v}) }
func (f *Flow) global(g *ssa.Global) int { return f.id(nodeKey{kind: nGlobal, v: g}) }
func (f *Flow) mem(a *ssa.Alloc) int     { return f.id(nodeKey{kind: nMem, v: a}) }
func (f *Flow) ret(fn *ssa.Function, i int) int {
	return f.id(nodeKey{kind: nRet, fn: fn, idx: i})
}
func (f *Flow) outp(p *ssa.Parameter) int { return f.id(nodeKey{kind: nOut, v: p}) }

func (f *Flow) edge(from, to int, kind edgeKind, site ssa.Instruction) {
	if from == to {
		return
	}
	for _, e := range f.out[from] {
		if e.to == to && e.kind == kind {
			return
		}
	}
	f.out[from] = append(f.out[from], flowEdge{to, kind, site})
	f.in[to] = append(f.in[to], flowEdge{from, kind, site})
}

func (f *Flow) carries(v ssa.Value) bool {
	if v == nil {
		return false
	}
	if _, ok := v.(*ssa.Const); ok {
		return false
	}
	return f.cfg.Carries(v.Type())
}

// servitorStruct: is the struct type of this field selection declared in servitor?
func servitorStruct(t types.Type) bool {
	n := namedOf(t)
	if n != nil && n.Obj().Pkg() != nil {
		return isServitorPath(n.Obj().Pkg().Path())
	}
	// anonymous struct types declared in servitor source (e.g. Splicer elements)
	if _, ok := deref(t).Underlying().(*types.Struct); ok && n == nil {
		return true
	}
	return false
}

// addrTargets: the nodes that stand for the memory an address denotes.
func (f *Flow) addrTargets(addr ssa.Value, depth int) []int {
	if depth > 10 {
		return []int{f.val(addr)}
	}
	switch x := addr.(type) {
	case *ssa.Alloc:
		return []int{f.mem(x), f.val(x)}
	case *ssa.FreeVar:
		if a, ok := resolveCell(x).(*ssa.Alloc); ok {
			return []int{f.mem(a)}
		}
		return []int{f.val(x)}
	case *ssa.Global:
		return []int{f.global(x)}
	case *ssa.FieldAddr:
		if servitorStruct(x.X.Type()) {
			return []int{f.field(fieldOf(x))}
		}
		return f.objTargets(x.X, depth+1)
	case *ssa.IndexAddr:
		return f.objTargets(x.X, depth+1)
	}
	return f.objTargets(addr, depth+1)
}

// objTargets: nodes standing for the object a reference-typed value denotes:
// the value itself and the memory it was loaded from (so that writing through
// a loaded reference is seen by later loads).
func (f *Flow) objTargets(v ssa.Value, depth int) []int {
	out := []int{f.val(v)}
	if depth > 10 {
		return out
	}
	switch x := v.(type) {
	case *ssa.Alloc:
		out = append(out, f.mem(x))
	case *ssa.UnOp:
		if x.Op == token.MUL {
			out = append(out, f.addrTargets(x.X, depth+1)...)
		}
	case *ssa.Slice:
		out = append(out, f.objTargets(x.X, depth+1)...)
	case *ssa.ChangeType:
		out = append(out, f.objTargets(x.X, depth+1)...)
	case *ssa.Convert:
		out = append(out, f.objTargets(x.X, depth+1)...)
	case *ssa.MakeInterface:
		out = append(out, f.objTargets(x.X, depth+1)...)
	case *ssa.FieldAddr, *ssa.IndexAddr:
		out = append(out, f.addrTargets(x, depth+1)...)
	case *ssa.Field:
		if servitorStruct(x.X.Type()) {
			out = append(out, f.field(fieldOf(x)))
		} else {
			out = append(out, f.objTargets(x.X, depth+1)...)
		}
	case *ssa.Parameter:
		out = append(out, f.outp(x))
	case *ssa.FreeVar:
		if a, ok := resolveCell(x).(*ssa.Alloc); ok {
			out = append(out, f.mem(a))
		}
	}
	return out
}

func isRefType(t types.Type) bool {
	switch t.Underlying().(type) {
	case *types.Pointer, *types.Slice, *types.Map, *types.Interface, *types.Chan:
		return true
	}
	return false
}

func (f *Flow) buildFunc(fn *ssa.Function) {
	for _, b := range fn.Blocks {
		for _, in := range b.Instrs {
			f.buildInstr(fn, in)
		}
	}
	// a parameter's out slot feeds the parameter itself (what was written
	// through it is visible to later reads in the same function)
	for _, p := range fn.Params {
		if isRefType(p.Type()) {
			f.edge(f.outp(p), f.val(p), eIntra, nil)
		}
	}
}

func (f *Flow) buildInstr(fn *ssa.Function, in ssa.Instruction) {
	switch x := in.(type) {
	case *ssa.Phi:
		if !f.carries(x) {
			return
		}
		for _, e := range x.Edges {
			if f.carries(e) {
				f.edge(f.val(e), f.val(x), eIntra, in)
			}
		}
	case *ssa.BinOp:
		if !f.carries(x) {
			return
		}
		for _, o := range []ssa.Value{x.X, x.Y} {
			if f.carries(o) {
				f.edge(f.val(o), f.val(x), eIntra, in)
				if f.cfg.MarkTransforms {
					f.xform[[2]int{f.val(o), f.val(x)}] = "string concatenation"
				}
			}
		}
	case *ssa.UnOp:
		if x.Op == token.MUL {
			if !f.carries(x) {
				return
			}
			for _, t := range f.addrTargets(x.X, 0) {
				f.edge(t, f.val(x), eIntra, in)
			}
			return
		}
		if f.carries(x) && f.carries(x.X) {
			f.edge(f.val(x.X), f.val(x), eIntra, in)
		}
	case *ssa.ChangeType:
		f.copy(x.X, x, in)
	case *ssa.Convert:
		f.copy(x.X, x, in)
		if f.cfg.MarkTransforms && f.carries(x) && f.carries(x.X) && !types.Identical(x.X.Type().Underlying(), x.Type().Underlying()) {
			f.xform[[2]int{f.val(x.X), f.val(x)}] = "conversion " + typeString(x.X.Type()) + " -> " + typeString(x.Type())
		}
	case *ssa.ChangeInterface:
		f.copy(x.X, x, in)
	case *ssa.MakeInterface:
		f.copy(x.X, x, in)
	case *ssa.SliceToArrayPointer:
		f.copy(x.X, x, in)
	case *ssa.TypeAssert:
		f.copy(x.X, x, in)
	case *ssa.Extract:
		if !f.carries(x) {
			return
		}
		if call, ok := x.Tuple.(*ssa.Call); ok {
			// edges come from the callee's result slots (see call handling);
			// library calls: tuple node
			_ = call
		}
		f.edge(f.val(x.Tuple), f.val(x), eIntra, in)
	case *ssa.Field:
		if !f.carries(x) {
			return
		}
		if servitorStruct(x.X.Type()) {
			f.edge(f.field(fieldOf(x)), f.val(x), eIntra, in)
		} else {
			f.edge(f.val(x.X), f.val(x), eIntra, in)
		}
	case *ssa.FieldAddr:
		// the address as a value: tainted when the memory is (object view)
		for _, t := range f.addrTargets(x, 0) {
			f.edge(t, f.val(x), eIntra, in)
		}
	case *ssa.IndexAddr:
		for _, t := range f.addrTargets(x, 0) {
			f.edge(t, f.val(x), eIntra, in)
		}
	case *ssa.Index:
		f.copy(x.X, x, in)
	case *ssa.Lookup:
		f.copy(x.X, x, in)
	case *ssa.Slice:
		f.copy(x.X, x, in)
		if f.cfg.MarkTransforms && (x.Low != nil || x.High != nil) {
			if b, ok := x.X.Type().Underlying().(*types.Basic); ok && b.Info()&types.IsString != 0 {
				f.xform[[2]int{f.val(x.X), f.val(x)}] = "substring"
			}
		}
	case *ssa.Range:
		f.copy(x.X, x, in)
	case *ssa.Next:
		f.copy(x.Iter, x, in)
	case *ssa.Alloc:
		f.edge(f.mem(x), f.val(x), eIntra, in)
	case *ssa.Store:
		if !f.carries(x.Val) {
			return
		}
		for _, t := range f.addrTargets(x.Addr, 0) {
			f.edge(f.val(x.Val), t, eIntra, in)
		}
	case *ssa.MapUpdate:
		for _, o := range []ssa.Value{x.Key, x.Value} {
			if f.carries(o) {
				for _, t := range f.objTargets(x.Map, 0) {
					f.edge(f.val(o), t, eIntra, in)
				}
			}
		}
	case *ssa.Send:
		if f.carries(x.X) {
			for _, t := range f.objTargets(x.Chan, 0) {
				f.edge(f.val(x.X), t, eIntra, in)
			}
		}
	case *ssa.Return:
		for i, r := range x.Results {
			if f.carries(r) {
				f.edge(f.val(r), f.ret(fn, i), eIntra, in)
			}
		}
	case *ssa.MakeClosure:
		// bindings are addresses of captured variables, shared through mem nodes
	case ssa.CallInstruction:
		f.buildCall(fn, x)
	}
}

func (f *Flow) copy(from ssa.Value, to ssa.Value, in ssa.Instruction) {
	if f.carries(from) && f.carries(to) {
		f.edge(f.val(from), f.val(to), eIntra, in)
	}
}

// resultNodes of a call instruction: for a single result the call value, for
// tuples the Extract instructions.
func callResultNodes(call ssa.CallInstruction) map[int]ssa.Value {
	out := map[int]ssa.Value{}
	v := call.Value()
	if v == nil {
		return out
	}
	if tup, ok := v.Type().(*types.Tuple); ok {
		_ = tup
		for _, r := range refs(v) {
			if ex, ok := r.(*ssa.Extract); ok {
				out[ex.Index] = ex
			}
		}
		return out
	}
	out[0] = v
	return out
}

func (f *Flow) buildCall(fn *ssa.Function, call ssa.CallInstruction) {
	c := call.Common()
	in := call.(ssa.Instruction)
	// builtins
	if b, ok := c.Value.(*ssa.Builtin); ok {
		v := call.Value()
		switch b.Name() {
		case "append":
			for _, a := range c.Args {
				if f.carries(a) && v != nil {
					f.edge(f.val(a), f.val(v), eIntra, in)
				}
			}
		case "copy":
			if len(c.Args) == 2 && f.carries(c.Args[1]) {
				for _, t := range f.objTargets(c.Args[0], 0) {
					f.edge(f.val(c.Args[1]), t, eIntra, in)
				}
			}
		case "min", "max":
			for _, a := range c.Args {
				if f.carries(a) && v != nil && f.carries(v) {
					f.edge(f.val(a), f.val(v), eIntra, in)
				}
			}
		}
		return
	}
	callees := f.P.Callees(call)
	args := c.Args
	var recvIface ssa.Value
	if c.IsInvoke() {
		recvIface = c.Value
	}
	handledServitor := false
	for _, callee := range callees {
		if !f.P.IsServitorFunc(callee) || callee.Blocks == nil {
			continue
		}
		handledServitor = true
		if f.cfg.Opaque[callee] {
			continue // sanitiser: results are clean
		}
		params := callee.Params
		actuals := args
		if recvIface != nil {
			actuals = append([]ssa.Value{recvIface}, args...)
		}
		for i, p := range params {
			if i >= len(actuals) {
				break
			}
			a := actuals[i]
			if f.carries(a) && f.cfg.Carries(p.Type()) {
				f.edge(f.val(a), f.val(p), eCall, in)
			}
			// out-parameter: what the callee writes through p reaches the
			// caller's object
			if isRefType(p.Type()) {
				for _, t := range f.objTargets(a, 0) {
					f.edge(f.outp(p), t, eRet, in)
				}
			}
		}
		if _, isGo := in.(*ssa.Go); isGo {
			continue
		}
		for i, rv := range callResultNodes(call) {
			if f.carries(rv) {
				f.edge(f.ret(callee, i), f.val(rv), eRet, in)
			}
		}
	}
	// library callees (or unresolved dynamic calls)
	lib := false
	for _, callee := range callees {
		if !f.P.IsServitorFunc(callee) {
			lib = true
		}
	}
	if len(callees) == 0 && !handledServitor {
		lib = true
	}
	if !lib {
		return
	}
	if f.cfg.CleanLib != nil && f.cfg.CleanLib(c) {
		return
	}
	f.libCall(fn, call)
}

// libCall: propagate-by-default summary. Every result, and every object
// reachable through a reference-typed argument, becomes tainted if any
// argument or the receiver is. Function-typed arguments that are servitor
// closures are called back: their parameters receive the other arguments,
// their results feed the call's results.
func (f *Flow) libCall(fn *ssa.Function, call ssa.CallInstruction) {
	c := call.Common()
	in := call.(ssa.Instruction)
	var actuals []ssa.Value
	if c.IsInvoke() {
		actuals = append(actuals, c.Value)
	} else if _, isFn := c.Value.(*ssa.Function); !isFn {
		// calling a func value: the value itself
		if _, isBuiltin := c.Value.(*ssa.Builtin); !isBuiltin {
			actuals = append(actuals, c.Value)
		}
	}
	actuals = append(actuals, c.Args...)
	var results []ssa.Value
	if v := call.Value(); v != nil {
		results = append(results, v) // tuple node or single value; Extract copies from it
	}
	desc := "library call " + objFullName(calleeObj(c))
	var closures []*ssa.Function
	for _, a := range actuals {
		if _, ok := a.Type().Underlying().(*types.Signature); ok {
			switch fv := a.(type) {
			case *ssa.MakeClosure:
				closures = append(closures, fv.Fn.(*ssa.Function))
			case *ssa.Function:
				if f.P.IsServitorFunc(fv) {
					closures = append(closures, fv)
				}
			}
		}
	}
	for _, a := range actuals {
		if !f.carries(a) {
			continue
		}
		if _, ok := a.Type().Underlying().(*types.Signature); ok {
			continue
		}
		for _, r := range results {
			if f.carries(r) || isTuple(r) {
				f.edge(f.val(a), f.val(r), eIntra, in)
				if f.cfg.MarkTransforms {
					f.xform[[2]int{f.val(a), f.val(r)}] = desc
				}
			}
		}
		for bi, b := range actuals {
			if b == a || !isRefType(b.Type()) {
				continue
			}
			if _, ok := b.Type().Underlying().(*types.Signature); ok {
				continue
			}
			if !libMayWriteArg(c, actuals, bi) {
				continue
			}
			for _, t := range f.objTargets(b, 0) {
				f.edge(f.val(a), t, eIntra, in)
				if f.cfg.MarkTransforms {
					f.xform[[2]int{f.val(a), t}] = desc
				}
			}
		}
		for _, cl := range closures {
			for _, p := range cl.Params {
				if f.cfg.Carries(p.Type()) {
					f.edge(f.val(a), f.val(p), eCall, in)
					if f.cfg.MarkTransforms {
						f.xform[[2]int{f.val(a), f.val(p)}] = desc
					}
				}
			}
		}
	}
	for _, cl := range closures {
		n := cl.Signature.Results().Len()
		for i := 0; i < n; i++ {
			for _, r := range results {
				f.edge(f.ret(cl, i), f.val(r), eRet, in)
				if f.cfg.MarkTransforms {
					f.xform[[2]int{f.ret(cl, i), f.val(r)}] = desc
				}
			}
		}
	}
}

func isTuple(v ssa.Value) bool {
	_, ok := v.Type().(*types.Tuple)
	return ok
}

// addSummaries: for every servitor function, which parameters reach which
// results / out-parameters using intra and (already known) summary edges;
// add the corresponding intra edges at every call site, to a fixpoint.
func (f *Flow) addSummaries() {
	type sumKey struct {
		fn   *ssa.Function
		from int // node id of the parameter
		to   int // node id of ret / out
	}
	known := map[sumKey]bool{}
	// call sites: (call edge arg->param) and (ret edge ret->result) share `site`
	for round := 0; round < 20; round++ {
		added := false
		for _, fn := range f.P.Funcs {
			var starts []int
			for _, p := range fn.Params {
				starts = append(starts, f.val(p))
			}
			for _, fv := range fn.FreeVars {
				_ = fv
			}
			for _, s := range starts {
				// intra-procedural reachability inside fn (plus summary edges, which are intra)
				seen := map[int]bool{s: true}
				work := []int{s}
				for len(work) > 0 {
					n := work[0]
					work = work[1:]
					for _, e := range f.out[n] {
						if e.kind != eIntra || seen[e.to] {
							continue
						}
						seen[e.to] = true
						work = append(work, e.to)
					}
				}
				for n := range seen {
					k := f.keys[n]
					isRet := k.kind == nRet && k.fn == fn
					isOut := k.kind == nOut && k.v.Parent() == fn && n != s
					if !isRet && !isOut {
						continue
					}
					sk := sumKey{fn, s, n}
					if known[sk] {
						continue
					}
					known[sk] = true
					// install at call sites: every call edge into `s` paired with
					// every return edge out of `n` at the same site
					for _, ce := range f.in[s] {
						if ce.kind != eCall {
							continue
						}
						for _, re := range f.out[n] {
							if re.kind != eRet || re.site != ce.site {
								continue
							}
							before := len(f.out[ce.to])
							f.edge(ce.to, re.to, eIntra, ce.site)
							if len(f.out[ce.to]) != before {
								added = true
								if f.cfg.MarkTransforms {
									if d := f.summaryTransforms(fn, s, n); d != "" {
										f.xform[[2]int{ce.to, re.to}] = d
									}
								}
							}
						}
					}
				}
			}
		}
		if !added {
			break
		}
	}
}

// summaryTransforms: does every intra path from s to n inside fn contain a
// transforming hop? Conservative: reports a transform if any path does.
func (f *Flow) summaryTransforms(fn *ssa.Function, s, n int) string {
	// BFS avoiding transforming edges: if n is reachable, an identity path exists
	seen := map[int]bool{s: true}
	work := []int{s}
	for len(work) > 0 {
		x := work[0]
		work = work[1:]
		for _, e := range f.out[x] {
			if e.kind != eIntra || seen[e.to] {
				continue
			}
			if _, isX := f.xform[[2]int{x, e.to}]; isX {
				continue
			}
			seen[e.to] = true
			work = append(work, e.to)
		}
	}
	if seen[n] {
		return ""
	}
	return "transformed inside " + fn.String()
}

// ---- reachability ------------------------------------------------------------

type reachState struct {
	node  int
	phase int // 1 ascending, 2 descending
}

type Reach struct {
	f    *Flow
	pred map[reachState]reachState
	via  map[reachState]flowEdge
	seen map[reachState]bool
	src  map[reachState]bool
}

// Forward computes everything reachable from the sources along realizable paths.
func (f *Flow) Forward(sources []int) *Reach {
	r := &Reach{f: f, pred: map[reachState]reachState{}, via: map[reachState]flowEdge{}, seen: map[reachState]bool{}, src: map[reachState]bool{}}
	var work []reachState
	for _, s := range sources {
		st := reachState{s, 1}
		if !r.seen[st] {
			r.seen[st] = true
			r.src[st] = true
			work = append(work, st)
		}
	}
	for len(work) > 0 {
		cur := work[0]
		work = work[1:]
		for _, e := range f.out[cur.node] {
			var next reachState
			switch e.kind {
			case eIntra:
				next = reachState{e.to, cur.phase}
			case eRet:
				if cur.phase != 1 {
					continue
				}
				next = reachState{e.to, 1}
			case eCall:
				next = reachState{e.to, 2}
			}
			if f.heap[e.to] {
				next.phase = 1
			}
			if r.seen[next] {
				continue
			}
			r.seen[next] = true
			r.pred[next] = cur
			r.via[next] = e
			work = append(work, next)
		}
	}
	return r
}

func (r *Reach) Reached(n int) bool {
	return r.seen[reachState{n, 1}] || r.seen[reachState{n, 2}]
}

// Path returns the witness path to node n as printable hops.
func (r *Reach) Path(n int) []string {
	st := reachState{n, 1}
	if !r.seen[st] {
		st = reachState{n, 2}
	}
	if !r.seen[st] {
		return nil
	}
	var rev []string
	for steps := 0; steps < 400; steps++ {
		rev = append(rev, r.f.describe(st.node, r.via[st]))
		if r.src[st] {
			break
		}
		p, ok := r.pred[st]
		if !ok {
			break
		}
		st = p
	}
	var out []string
	last := ""
	for i := len(rev) - 1; i >= 0; i-- {
		if rev[i] != last {
			out = append(out, rev[i])
		}
		last = rev[i]
	}
	return out
}

// PathNodes returns the node ids on the witness path (source first).
func (r *Reach) PathNodes(n int) []int {
	st := reachState{n, 1}
	if !r.seen[st] {
		st = reachState{n, 2}
	}
	if !r.seen[st] {
		return nil
	}
	var rev []int
	for steps := 0; steps < 2000; steps++ {
		rev = append(rev, st.node)
		if r.src[st] {
			break
		}
		p, ok := r.pred[st]
		if !ok {
			break
		}
		st = p
	}
	for i, j := 0, len(rev)-1; i < j; i, j = i+1, j-1 {
		rev[i], rev[j] = rev[j], rev[i]
	}
	return rev
}

func (f *Flow) describe(n int, via flowEdge) string {
	k := f.keys[n]
	pos := "-"
	if via.site != nil {
		pos = f.P.InstrPos(via.site)
	}
	switch k.kind {
	case nValue:
		fn := ""
		if k.v.Parent() != nil {
			fn = trimPkg(k.v.Parent().String())
		}
		if !strings.Contains(pos, ":") && k.v.Pos().IsValid() {
			pos = f.P.Pos(k.v.Pos())
		}
		return fmt.Sprintf("%s  %s %s", pos, fn, valueDesc(k.v))
	case nField:
		return fmt.Sprintf("%s  field %s", pos, k.f.Name())
	case nGlobal:
		return fmt.Sprintf("%s  global %s", pos, k.v.String())
	case nMem:
		return fmt.Sprintf("%s  variable %s in %s", pos, k.v.(*ssa.Alloc).Comment, trimPkg(k.v.Parent().String()))
	case nRet:
		return fmt.Sprintf("%s  result #%d of %s", pos, k.idx, trimPkg(k.fn.String()))
	case nOut:
		return fmt.Sprintf("%s  written through parameter %s of %s", pos, k.v.Name(), trimPkg(k.v.Parent().String()))
	}
	return "?"
}

func valueDesc(v ssa.Value) string {
	switch x := v.(type) {
	case *ssa.Parameter:
		return "parameter " + x.Name()
	case *ssa.Call:
		return "call " + objFullName(calleeObj(&x.Call))
	case *ssa.Extract:
		return fmt.Sprintf("result #%d of %s", x.Index, valueDesc(x.Tuple))
	case *ssa.BinOp:
		return "concatenation"
	case *ssa.UnOp:
		return "load"
	case *ssa.Phi:
		return "merge (" + x.Comment + ")"
	case *ssa.TypeAssert:
		return "type assertion to " + typeString(x.AssertedType)
	case *ssa.Field, *ssa.FieldAddr:
		return "field " + fieldOf(v).Name()
	case *ssa.FreeVar:
		return "captured " + x.Name()
	case *ssa.Alloc:
		return "variable " + x.Comment
	}
	s := v.String()
	if len(s) > 60 {
		s = s[:60] + "…"
	}
	return s
}

// Backward computes the origin nodes (no incoming edges) from which n is
// reachable, context-insensitively; stop(n) prunes the walk.
func (f *Flow) Backward(n int, stop func(int) bool) (origins []int, visited map[int]bool) {
	visited = map[int]bool{n: true}
	work := []int{n}
	for len(work) > 0 {
		x := work[0]
		work = work[1:]
		if stop != nil && stop(x) {
			continue
		}
		if len(f.in[x]) == 0 {
			origins = append(origins, x)
			continue
		}
		for _, e := range f.in[x] {
			if !visited[e.to] {
				visited[e.to] = true
				work = append(work, e.to)
			}
		}
	}
	sort.Ints(origins)
	return
}

// libMayWriteArg: may this library call write (tainted data) into the object
// denoted by actual #i? True for the receiver of a method, for the arguments
// listed in libWrites, for pointers handed over as `any` (Decode/Unmarshal/
// Scan style), for pointers to non-struct values, for io.Writer-like
// destinations and for the buffer of Read-like methods. Other reference
// arguments (a *url.URL passed to ResolveReference, the sentinel passed to
// errors.Is, a []string of media types) are only read by the libraries
// servitor uses.
func libMayWriteArg(c *ssa.CallCommon, actuals []ssa.Value, i int) bool {
	fobj := calleeObj(c)
	hasRecv := c.IsInvoke()
	if fobj != nil {
		if sig, ok := fobj.Type().(*types.Signature); ok && sig.Recv() != nil {
			hasRecv = true
		}
	}
	if hasRecv && i == 0 {
		// methods of these types never modify their receiver
		if t := actuals[0].Type(); isNamed(t, "net/url", "URL") || isNamed(t, "regexp", "Regexp") || isNamed(t, "time", "Time") {
			return false
		}
		return true
	}
	for _, k := range libWrites(c) {
		if k == i {
			return true
		}
	}
	a := actuals[i]
	if mi, ok := a.(*ssa.MakeInterface); ok {
		if _, isPtr := mi.X.Type().Underlying().(*types.Pointer); isPtr {
			return true
		}
	}
	if pt, ok := a.Type().Underlying().(*types.Pointer); ok {
		if _, isStruct := pt.Elem().Underlying().(*types.Struct); !isStruct {
			return true
		}
		if isNamed(pt.Elem(), "bytes", "Buffer") || isNamed(pt.Elem(), "strings", "Builder") {
			return true
		}
	}
	if n := namedOf(a.Type()); n != nil && n.Obj().Pkg() != nil && n.Obj().Pkg().Path() == "io" {
		switch n.Obj().Name() {
		case "Writer", "WriteCloser", "ReadWriter", "ReadWriteCloser", "StringWriter":
			return true
		}
	}
	if fobj != nil && strings.HasPrefix(fobj.Name(), "Read") {
		if sl, ok := a.Type().Underlying().(*types.Slice); ok {
			if b, ok := sl.Elem().Underlying().(*types.Basic); ok && b.Kind() == types.Byte {
				return true
			}
		}
	}
	if fobj != nil && fobj.Pkg() != nil && fobj.Pkg().Path() == "fmt" && (strings.HasPrefix(fobj.Name(), "Fprint") || strings.Contains(fobj.Name(), "scan")) {
		return i == 0 || strings.Contains(fobj.Name(), "scan")
	}
	if fobj != nil && fobj.Pkg() != nil && fobj.Pkg().Path() == "io" {
		switch fobj.Name() {
		case "Copy", "CopyN", "CopyBuffer", "WriteString":
			return i == 0
		case "ReadFull", "ReadAtLeast":
			return i == 1
		}
	}
	return false
}
