package main

import (
	"fmt"
	"go/token"
	"go/types"
	"os"
	"path/filepath"
	"regexp"
	"sort"
	"strings"

	"golang.org/x/tools/go/ssa"
)

func init() { registry["C20"] = propC20 }

func propC20() *Property {
	return &Property{
		ID:          "C20",
		Explanation: "Static shape, guard and identity-flow rules on the media hook. Decided: (R1) the only process-spawning call sites in the module are exec.Command and the Cmd's run method in ui.openExternally, the program is not a constant shell, and of the exec.Cmd that exec.Command made only the standard streams are ever set (not Path, Args, Env or Dir, against which a relative program path would be resolved); (R2) the argv handed to exec.Command is element 0 / the tail of a slice freshly made with the configured hook's length and filled by copy from config.Parsed.Media.Hook, which is itself never written; (R3) every other write into that slice is at an index known to be non-zero, on the equality edge of the element itself against a constant placeholder, and stores — by identity, no string operation in between — the link parameter for %url and the Essence/Supertype/Subtype field of the media type for %mimetype/%supertype/%subtype; the placeholder constants are exactly those documented in readme.md; (R4) Stdin is set only when no %url placeholder was substituted and then to a reader over the link itself; (R5) the media type is non-nil at every call of openExternally (every producer of a (link, type, true) triple returns a non-nil type). (R6) the only store into Media.Hook anywhere in the module is the default literal of constants that the decoder overwrites. (R7) fields of mime.MediaType values are written in package mime only, so the %mimetype, %supertype and %subtype handed to the hook describe one type. (R8 = last clause of C17.R10) Essence, Supertype and Subtype of a parsed media type are the three groups of the match, unchanged. (R9) every way through openExternally passes exec.Command and the go statement that runs it. Not decided: what the operating system does with argv; the link's own content (deliberately verbatim).",
		Assumptions: []string{
			"os/exec.Command passes its arguments to execve without interpretation",
			"readme.md's 'Media Hook' section is the documentation of the placeholders",
		},
		Rules: []Rule{
			{ID: "C20.R1", Title: "single exec site, no shell as program", Floor: 1, Run: c20R1},
			{ID: "C20.R2", Title: "argv is a private copy of the configured hook", Floor: 2, Run: c20R2},
			{ID: "C20.R3", Title: "argument-wise exact-match substitution by identity", Floor: 7, Run: c20R3},
			{ID: "C20.R4", Title: "stdin fallback only without %url, carrying the link", Floor: 1, Run: c20R4},
			{ID: "C20.R5", Title: "media type is non-nil at every external open", Floor: 2, Run: c20R5},
			{ID: "C20.R6", Title: "the configured hook is not rewritten between the configuration file and the hook", Floor: 1, Run: c20R6},
			{ID: "C20.R9", Title: "opening a link externally always runs the configured program: every way through openExternally passes exec.Command and the start of the goroutine that runs it", Floor: 1, Run: c20R9},
			{ID: "C20.R8", Title: "%mimetype, %supertype and %subtype are the three groups of the media type pattern as matched: mime.Parse fills Essence, Supertype and Subtype with them unchanged (same instances as the last clause of C17.R10)", Floor: 2, Run: c17R10},
			{ID: "C20.R7", Title: "media types are made by package mime and never patched", Floor: 1, Run: c20R7},
		},
	}
}

type hookShape struct {
	fn       *ssa.Function
	link     *ssa.Parameter
	media    *ssa.Parameter
	command  *ssa.Call // exec.Command
	argv     ssa.Value // the slice
	problems []string
	// where argv is built: openExternally itself, or a helper it calls with its
	// own link and media type (then bLink/bMedia are the helper's parameters)
	build     *ssa.Function
	bLink     *ssa.Parameter
	bMedia    *ssa.Parameter
	buildCall *ssa.Call
}

// argvOf: the slice whose element 0 is the program, as seen in openExternally
// (outer) and where it is built (inner, possibly inside a helper).
func (h *hookShape) argvOf(P *Program) (outer, inner ssa.Value) {
	if h.command == nil {
		return nil, nil
	}
	if u, ok := h.command.Call.Args[0].(*ssa.UnOp); ok && u.Op == token.MUL {
		if ia, ok := u.X.(*ssa.IndexAddr); ok {
			outer = ia.X
		}
	}
	inner = outer
	h.build, h.bLink, h.bMedia = h.fn, h.link, h.media
	if v, env, ok := seeThrough(P, outer, nil); ok {
		ex := outer.(*ssa.Extract)
		call := ex.Tuple.(*ssa.Call)
		sc := call.Call.StaticCallee()
		var bl, bm *ssa.Parameter
		for p, a := range env {
			if unwrapLoad(a) == ssa.Value(h.link) {
				bl = p
			}
			if unwrapLoad(a) == ssa.Value(h.media) {
				bm = p
			}
		}
		if bl != nil && bm != nil {
			inner = v
			h.build, h.bLink, h.bMedia, h.buildCall = sc, bl, bm, call
		}
	}
	return outer, inner
}

func analyseHook(P *Program) *hookShape {
	fn := P.Method("servitor/ui", "State", "openExternally")
	h := &hookShape{fn: fn}
	for _, p := range fn.Params {
		if isNamed(p.Type(), "servitor/mime", "MediaType") {
			h.media = p
		} else if b := p.Type().String(); b == "string" {
			h.link = p
		}
	}
	if h.link == nil || h.media == nil {
		unfollowed("ui.openExternally no longer takes (link string, mediaType *mime.MediaType)")
	}
	eachInstr(fn, func(_ *ssa.BasicBlock, _ int, in ssa.Instruction) {
		if call, ok := in.(*ssa.Call); ok && isLibCall(&call.Call, "os/exec", "", "Command") {
			h.command = call
		}
	})
	return h
}

func c20R1(c *Ctx) {
	P := c.P
	n := 0
	for _, fn := range P.Funcs {
		eachInstr(fn, func(_ *ssa.BasicBlock, _ int, in ssa.Instruction) {
			cc := callOf(in)
			if cc == nil {
				return
			}
			f := calleeObj(cc)
			if f == nil || f.Pkg() == nil {
				return
			}
			spawn := f.Pkg().Path() == "os/exec" ||
				(f.Pkg().Path() == "os" && f.Name() == "StartProcess") ||
				(f.Pkg().Path() == "syscall" && (f.Name() == "Exec" || f.Name() == "ForkExec" || f.Name() == "StartProcess"))
			if !spawn {
				return
			}
			n++
			root := fn
			for root.Parent() != nil {
				root = root.Parent()
			}
			okSite := P.PkgOf(fn) == "servitor/ui" && root.Name() == "openExternally"
			okFn := map[string]bool{"Command": true, "CombinedOutput": true, "Run": true, "Output": true, "Start": true, "Wait": true}[f.Name()]
			c.check(okSite && okFn, FuncName(fn)+"/spawn:"+f.FullName(), P.InstrPos(in), FuncName(fn),
				"process spawned by the media hook only", "a process is spawned ("+f.FullName()+") outside the media hook's single exec site")
			if f.Name() == "Command" || f.Name() == "CommandContext" {
				prog := cc.Args[0]
				if f.Name() == "CommandContext" {
					prog = cc.Args[1]
				}
				s, isConst := constString(prog)
				c.check(!isConst, FuncName(fn)+"/program", P.InstrPos(in), FuncName(fn),
					"the program comes from the configuration, not a constant",
					fmt.Sprintf("the program is the constant %q: the hook is run through a fixed interpreter", s))
			}
		})
	}
	c.info("spawn_sites", n)
	// what exec.Command made is run as it is: the only fields of an exec.Cmd the
	// module sets are the standard streams. Path and Args are the argv; Env,
	// SysProcAttr and above all Dir change how it is interpreted — os/exec
	// resolves a relative program path ("./tools/open") against Dir, so a hook
	// configured that way would run another file, or none (seed C20-2r7).
	for _, fn := range P.Funcs {
		eachInstr(fn, func(_ *ssa.BasicBlock, _ int, in ssa.Instruction) {
			st, ok := in.(*ssa.Store)
			if !ok {
				return
			}
			fa, ok := st.Addr.(*ssa.FieldAddr)
			if !ok || !isNamed(fa.X.Type(), "os/exec", "Cmd") {
				return
			}
			name := fieldOf(fa).Name()
			okField := name == "Stdin" || name == "Stdout" || name == "Stderr"
			c.check(okField, FuncName(fn)+"/cmd-field:"+name, P.InstrPos(in), FuncName(fn),
				"only a standard stream of the hook's command is set", "the field "+name+" of the hook's exec.Cmd is set after exec.Command built it: the program that runs, its argv or the directory a relative program path is resolved against is no longer what the configuration says")
		})
	}
}

func hookPath(v ssa.Value) bool {
	return path(v) == "global:servitor/config.Parsed.*.&Media.&Hook.*"
}

func c20R2(c *Ctx) {
	P := c.P
	h := analyseHook(P)
	fname := FuncName(h.fn)
	if h.command == nil {
		c.bad(fname+"/exec", P.Pos(h.fn.Pos()), fname, "openExternally no longer calls exec.Command")
		return
	}
	pos := P.InstrPos(h.command)
	prog, rest := h.command.Call.Args[0], h.command.Call.Args[1]
	var argv ssa.Value
	okProg := false
	if u, ok := prog.(*ssa.UnOp); ok && u.Op == token.MUL {
		if ia, ok := u.X.(*ssa.IndexAddr); ok {
			if k, isC := constInt(ia.Index); isC && k == 0 {
				argv = ia.X
				okProg = true
			}
		}
	}
	_, inner := h.argvOf(P)
	c.check(okProg, fname+"/argv0", pos, fname, "the program is element 0 of the argv slice", "the program passed to exec.Command is not element 0 of the copied hook")
	okRest := false
	if sl, ok := rest.(*ssa.Slice); ok && sl.X == argv && sl.High == nil && sl.Max == nil {
		if k, isC := constInt(sl.Low); isC && k == 1 {
			okRest = true
		}
	}
	c.check(okRest, fname+"/argv-tail", pos, fname, "the arguments are elements 1.. of the same slice", "the arguments passed to exec.Command are not argv[1:] of the same slice")
	h.argv = argv
	// the slice is freshly made with the hook's length and filled by copy from the configuration
	// … or produced in one step by append(nil, hook...) / slices.Clone(hook), which
	// always allocate and copy
	if cl, ok := inner.(*ssa.Call); ok {
		oneStep := false
		if b, isB := cl.Call.Value.(*ssa.Builtin); isB && b.Name() == "append" && len(cl.Call.Args) == 2 && hookPath(cl.Call.Args[1]) {
			base := unwrapLoad(cl.Call.Args[0])
			if isNilConst(base) {
				oneStep = true
			}
			if sl, isSl := base.(*ssa.Slice); isSl {
				if al, isAl := sl.X.(*ssa.Alloc); isAl {
					if arr, isArr := deref(al.Type()).Underlying().(*types.Array); isArr && arr.Len() == 0 {
						oneStep = true
					}
				}
			}
		}
		if f := calleeObj(&cl.Call); f != nil && f.Pkg() != nil && (f.Pkg().Path() == "slices" || f.Pkg().Path() == "golang.org/x/exp/slices") && f.Name() == "Clone" && len(cl.Call.Args) == 1 && hookPath(cl.Call.Args[0]) {
			oneStep = true
		}
		if oneStep {
			c.ok(fname+"/argv-fresh", pos, fname, "argv is a fresh copy of config.Parsed.Media.Hook (append to nil / Clone)")
			c.ok(fname+"/argv-copy", pos, fname, "filled by the same call")
			for _, r := range refs(cl) {
				switch x := r.(type) {
				case *ssa.IndexAddr, *ssa.Slice, *ssa.DebugRef, *ssa.Range:
				case *ssa.Call:
					if b, ok := x.Call.Value.(*ssa.Builtin); ok && (b.Name() == "len" || b.Name() == "cap") {
						continue
					}
					c.bad(fname+"/argv-escapes", P.InstrPos(r), fname, "argv is handed to "+objFullName(calleeObj(&x.Call))+" before exec")
				case *ssa.Return:
					if h.build == h.fn {
						c.bad(fname+"/argv-escapes", P.InstrPos(r), fname, "argv is returned")
					}
				default:
					c.bad(fname+"/argv-escapes", P.InstrPos(r), fname, "argv is used in an unexpected way before exec")
				}
			}
			return
		}
	}
	mk, isMake := inner.(*ssa.MakeSlice)
	okMake := false
	if isMake {
		if lc, ok := mk.Len.(*ssa.Call); ok {
			if b, ok := lc.Call.Value.(*ssa.Builtin); ok && b.Name() == "len" && hookPath(lc.Call.Args[0]) {
				okMake = true
			}
		}
	}
	c.check(okMake, fname+"/argv-fresh", pos, fname, "argv = make([]string, len(config.Parsed.Media.Hook))", "argv is not a freshly made slice of the configured hook's length (substitution would write into the shared configuration, or argv has the wrong length)")
	nCopy := 0
	if isMake {
		for _, r := range refs(mk) {
			if call, ok := r.(*ssa.Call); ok {
				if b, ok := call.Call.Value.(*ssa.Builtin); ok && b.Name() == "copy" && unwrapLoad(call.Call.Args[0]) == ssa.Value(mk) {
					before := false
					if h.build == h.fn {
						before = dominatesInstr(call, h.command)
					} else {
						before = dominatesAllReturns(call)
					}
					if hookPath(call.Call.Args[1]) && before {
						nCopy++
					}
				}
			}
		}
	}
	c.check(nCopy == 1, fname+"/argv-copy", pos, fname, "filled by one copy(argv, config.Parsed.Media.Hook) before exec", "argv is not filled by exactly one copy from config.Parsed.Media.Hook")
	// nothing else touches argv
	if isMake {
		for _, r := range refs(mk) {
			switch x := r.(type) {
			case *ssa.IndexAddr, *ssa.Slice:
			case *ssa.Call:
				if b, ok := x.Call.Value.(*ssa.Builtin); ok && (b.Name() == "copy" || b.Name() == "len") {
					continue
				}
				c.bad(fname+"/argv-escapes", P.InstrPos(r), fname, "argv is handed to "+objFullName(calleeObj(&x.Call))+" before exec")
			case *ssa.DebugRef:
			case *ssa.Return:
				if h.build == h.fn {
					c.bad(fname+"/argv-escapes", P.InstrPos(r), fname, "argv is returned")
				}
			default:
				c.bad(fname+"/argv-escapes", P.InstrPos(r), fname, "argv is used in an unexpected way before exec")
			}
		}
	}
}

var placeholderMap = map[string]string{"%url": "link", "%mimetype": "Essence", "%supertype": "Supertype", "%subtype": "Subtype"}

func readmePlaceholders(repo string) []string {
	b, err := os.ReadFile(filepath.Join(repo, "readme.md"))
	if err != nil {
		b, err = os.ReadFile(filepath.Join(repo, "README.md"))
		if err != nil {
			return nil
		}
	}
	text := string(b)
	i := strings.Index(text, "### Media Hook")
	if i < 0 {
		return nil
	}
	text = text[i:]
	if j := strings.Index(text[3:], "\n## "); j > 0 {
		text = text[:j+3]
	}
	set := map[string]bool{}
	for _, m := range regexp.MustCompile("(?m)^\\* `(%[a-z]+)`").FindAllStringSubmatch(text, -1) {
		set[m[1]] = true
	}
	var out []string
	for k := range set {
		out = append(out, k)
	}
	sort.Strings(out)
	return out
}

func c20R3(c *Ctx) {
	P := c.P
	h := analyseHook(P)
	fname := FuncName(h.fn)
	if h.command == nil {
		c.bad(fname+"/exec", P.Pos(h.fn.Pos()), fname, "openExternally no longer calls exec.Command")
		return
	}
	_, argv := h.argvOf(P)
	if argv == nil {
		c.bad(fname+"/argv", P.InstrPos(h.command), fname, "cannot identify the argv slice")
		return
	}
	ft := factsOf(h.build)
	seenConst := map[string]bool{}
	for _, r := range refs(argv) {
		ia, ok := r.(*ssa.IndexAddr)
		if !ok {
			continue
		}
		for _, rr := range refs(ia) {
			st, ok := rr.(*ssa.Store)
			if !ok || st.Addr != ssa.Value(ia) {
				continue
			}
			pos := P.InstrPos(st)
			facts := ft.At(st.Block())
			// (i) index != 0
			nz := false
			for _, f := range facts {
				cmp, ok := f.Cmp()
				if !ok {
					continue
				}
				if k, isC := constInt(cmp.Y); isC && cmp.X == ia.Index && ((cmp.Op == token.NEQ && k == 0) || (cmp.Op == token.GTR && k >= 0) || (cmp.Op == token.GEQ && k >= 1)) {
					nz = true
				}
			}
			if !nz && countsFromAtLeast(ia.Index, 1) {
				nz = true // an index that starts at 1 (or later) and only grows
			}
			c.check(nz, fname+"/subst:index-nonzero", pos, fname, "the substituted index is known to be non-zero", "an argv element is overwritten at an index that may be 0: the program name can be substituted")
			// (ii) exact equality of the element itself against a constant
			var consts []string
			for _, f := range facts {
				cmp, ok := f.Cmp()
				if !ok || cmp.Op != token.EQL {
					continue
				}
				for _, side := range [][2]ssa.Value{{cmp.X, cmp.Y}, {cmp.Y, cmp.X}} {
					s, isC := constString(side[1])
					if !isC {
						continue
					}
					if u, ok := side[0].(*ssa.UnOp); ok && u.Op == token.MUL {
						if ia2, ok := u.X.(*ssa.IndexAddr); ok && ia2.X == argv && ia2.Index == ia.Index {
							consts = append(consts, s)
						}
					}
				}
			}
			if !c.check(len(consts) == 1, fname+"/subst:exact-match", pos, fname, "on the edge where the element itself equals one constant placeholder", "an argv element is overwritten without an exact equality test of that very element against a placeholder constant (substring or prefix matching would rewrite parts of longer arguments)") {
				continue
			}
			ph := consts[0]
			seenConst[ph] = true
			// (iii) identity of the substituted value, (iv) right field for the placeholder
			want, known := placeholderMap[ph]
			got := ""
			switch {
			case unwrapLoad(st.Val) == ssa.Value(h.bLink):
				got = "link"
			default:
				if u, ok := st.Val.(*ssa.UnOp); ok && u.Op == token.MUL {
					if fa, ok := u.X.(*ssa.FieldAddr); ok && unwrapLoad(fa.X) == ssa.Value(h.bMedia) {
						got = fieldOf(fa).Name()
					}
				}
			}
			c.check(known && got == want, fname+"/subst:"+ph, pos, fname,
				ph+" is replaced by "+want+" itself (identity, no string operation)",
				fmt.Sprintf("placeholder %s is replaced by %q, expected %s by identity (the value must arrive as one unmodified argument)", ph, got, want))
		}
	}
	// placeholders handled == placeholders documented
	doc := readmePlaceholders(P.Repo)
	var handled []string
	for k := range seenConst {
		handled = append(handled, k)
	}
	sort.Strings(handled)
	c.check(len(doc) > 0 && strings.Join(doc, ",") == strings.Join(handled, ","), fname+"/placeholders-documented", P.Pos(h.fn.Pos()), fname,
		"handled placeholders "+strings.Join(handled, ",")+" equal the ones documented in readme.md",
		"placeholders handled ("+strings.Join(handled, ",")+") differ from those documented in readme.md ("+strings.Join(doc, ",")+")")
}

func c20R4(c *Ctx) {
	P := c.P
	h := analyseHook(P)
	fname := FuncName(h.fn)
	ft := factsOf(h.fn)
	h.argvOf(P)
	bft := factsOf(h.build)
	n := 0
	for _, fn := range P.Funcs {
		eachInstr(fn, func(_ *ssa.BasicBlock, _ int, in ssa.Instruction) {
			st, ok := in.(*ssa.Store)
			if !ok {
				return
			}
			fa, ok := st.Addr.(*ssa.FieldAddr)
			if !ok || fieldOf(fa).Name() != "Stdin" || !isNamed(fa.X.Type(), "os/exec", "Cmd") {
				return
			}
			n++
			pos := P.InstrPos(in)
			if fn != h.fn {
				c.bad(FuncName(fn)+"/stdin", pos, FuncName(fn), "Cmd.Stdin is set outside openExternally")
				return
			}
			// under flag == false, flag's only true edge is the %url case
			okFlag := false
			why := "Stdin is set on a path where a %url placeholder may have been substituted (the link would be passed twice), or the flag is not tied to the %url case"
			for _, f := range ft.At(st.Block()) {
				if f.Truth {
					continue
				}
				cond := f.Cond
				if h.build != h.fn {
					// the flag is a result of the helper that builds argv
					if ex, ok := cond.(*ssa.Extract); ok && ex.Tuple == ssa.Value(h.buildCall) {
						if inner, _, ok := seeThrough(P, ex, nil); ok {
							cond = inner
						}
					}
				}
				ph, ok := cond.(*ssa.Phi)
				if !ok {
					continue
				}
				good, sawTrue := true, false
				// the constant edges of the flag, through merge phis (a for.post block merges the arms of the switch)
				type flagEdge struct {
					val  ssa.Value
					pred *ssa.BasicBlock
				}
				var flat []flagEdge
				seenPhi := map[*ssa.Phi]bool{}
				var flatten func(p *ssa.Phi)
				flatten = func(p *ssa.Phi) {
					if seenPhi[p] {
						return
					}
					seenPhi[p] = true
					for k, ed := range p.Edges {
						if inner, isPhi := unwrapLoad(ed).(*ssa.Phi); isPhi {
							flatten(inner)
							continue
						}
						flat = append(flat, flagEdge{ed, p.Block().Preds[k]})
					}
				}
				flatten(ph)
				for _, fe := range flat {
					ed := fe.val
					cst, ok := ed.(*ssa.Const)
					if !ok || cst.Value == nil {
						good = false
						continue
					}
					if cst.Value.String() == "true" {
						sawTrue = true
						pred := fe.pred
						isURL := false
						for _, pf := range bft.At(pred) {
							if cmp, ok := pf.Cmp(); ok && cmp.Op == token.EQL {
								if s, isC := constString(cmp.Y); isC && s == "%url" {
									isURL = true
								}
							}
						}
						// and that block stores the link into argv
						stores := false
						for _, pin := range pred.Instrs {
							if pst, ok := pin.(*ssa.Store); ok && unwrapLoad(pst.Val) == ssa.Value(h.bLink) {
								stores = true
							}
						}
						if !isURL || !stores {
							good = false
						}
					}
				}
				if good && sawTrue {
					okFlag = true
				}
			}
			c.check(okFlag, fname+"/stdin-guard", pos, fname, "Stdin is set only when no %url placeholder was substituted", why)
			// the reader wraps the link by identity
			okVal := false
			if mi, ok := st.Val.(*ssa.MakeInterface); ok {
				if call, ok := mi.X.(*ssa.Call); ok && (isLibCall(&call.Call, "strings", "", "NewReader") || isLibCall(&call.Call, "bytes", "", "NewBufferString")) && unwrapLoad(call.Call.Args[0]) == ssa.Value(h.link) {
					okVal = true
				}
			}
			c.check(okVal, fname+"/stdin-value", pos, fname, "standard input is a reader over the link itself", "standard input is not a reader over the unmodified link")
			// the command whose Stdin is set is the one created by exec.Command
			okCmd := h.command != nil && unwrapLoad(fa.X) == ssa.Value(h.command)
			c.check(okCmd, fname+"/stdin-cmd", pos, fname, "set on the command created by exec.Command", "Stdin is set on a different command object")
		})
	}
	if n == 0 {
		c.bad(fname+"/stdin-missing", P.Pos(h.fn.Pos()), fname, "Cmd.Stdin is never set: without a %url placeholder the link is not passed at all")
	}
}

func c20R5(c *Ctx) {
	P := c.P
	h := analyseHook(P)
	nn := newNonNil(P)
	// callers pass a media type known non-nil
	for _, e := range P.Callers(h.fn) {
		if e.Site == nil {
			continue
		}
		fn := e.Caller.Func
		args := e.Site.Common().Args
		mt := args[len(args)-1]
		ok, why := mediaTypeNonNil(P, nn, mt, e.Site.Block())
		c.check(ok, FuncName(fn)+"/open:media-type", P.InstrPos(e.Site), FuncName(fn), why, "openExternally may be called with a nil media type (it dereferences it for %mimetype): "+why)
	}
}

// mediaTypeNonNil: mt is result #1 of a (link, type, present) producer and
// present is known true here, and every producer returns a non-nil type with true.
func mediaTypeNonNil(P *Program, nn *nonNil, mt ssa.Value, b *ssa.BasicBlock) (bool, string) {
	ex, ok := mt.(*ssa.Extract)
	if !ok {
		if nn.Value(mt, b, 0) {
			return true, "media type provably non-nil"
		}
		return false, "the media type is not the result of a (link, type, present) producer"
	}
	call, ok := ex.Tuple.(*ssa.Call)
	if !ok {
		return false, "unknown origin"
	}
	present := resultValue(call, 2)
	if present == nil || !hasBoolFact(factsOf(b.Parent()).At(b), func(v ssa.Value) bool { return v == present }, true) {
		return false, "the `present` result is not known to be true at the call"
	}
	callees := P.Callees(call)
	if len(callees) == 0 {
		return false, "no callee resolved"
	}
	for _, callee := range callees {
		if ok, why := presentImpliesType(P, nn, callee, map[*ssa.Function]bool{}); !ok {
			return false, why
		}
	}
	return true, "present == true is known and every producer returns a non-nil media type with it"
}

// presentImpliesType: every return of fn either has result #2 == false or a
// provably non-nil result #1.
func presentImpliesType(P *Program, nn *nonNil, fn *ssa.Function, seen map[*ssa.Function]bool) (bool, string) {
	if seen[fn] {
		return true, ""
	}
	seen[fn] = true
	if len(fn.Blocks) == 0 {
		return false, "no body for " + fn.String()
	}
	for _, b := range fn.Blocks {
		ret, ok := b.Instrs[len(b.Instrs)-1].(*ssa.Return)
		if !ok || len(ret.Results) != 3 {
			continue
		}
		if cst, ok := ret.Results[2].(*ssa.Const); ok && cst.Value != nil && cst.Value.String() == "false" {
			continue
		}
		// forwarded triple
		if ex, ok := ret.Results[1].(*ssa.Extract); ok {
			if call, ok := ex.Tuple.(*ssa.Call); ok && ex.Index == 1 {
				if ex2, ok := ret.Results[2].(*ssa.Extract); ok && ex2.Tuple == ex.Tuple && ex2.Index == 2 {
					all := true
					why := ""
					callees := P.Callees(call)
					for _, callee := range callees {
						if ok, w := presentImpliesType(P, nn, callee, seen); !ok {
							all = false
							why = w
						}
					}
					if all && len(callees) > 0 {
						continue
					}
					return false, why
				}
			}
		}
		if !nn.Value(ret.Results[1], b, 0) {
			return false, trimPkg(fn.String()) + " can return present=true with a possibly-nil media type at " + P.InstrPos(ret)
		}
	}
	return true, ""
}

// c20R6: "exactly the configured argv" starts at the configuration file. The
// only stores into Media.Hook in the module are the default (a literal of
// constant strings, stored before decoding into the same object, C19.R1) — the
// decoder then overwrites it with what the file says. Any other store into
// the field, or into an element of it, replaces what the user configured (an
// argument dropped, trimmed, reordered) before openExternally ever sees it.
func c20R6(c *Ctx) {
	P := c.P
	hook := P.Field("servitor/config", "Config", "Media")
	_ = hook
	n := 0
	for _, fn := range P.Funcs {
		fname := FuncName(fn)
		eachInstr(fn, func(_ *ssa.BasicBlock, _ int, in ssa.Instruction) {
			st, ok := in.(*ssa.Store)
			if !ok {
				return
			}
			// address: …Media.Hook, or an element of a slice loaded from it
			isHookField := func(v ssa.Value) bool {
				fa, ok := v.(*ssa.FieldAddr)
				if !ok || fieldOf(fa).Name() != "Hook" {
					return false
				}
				owner := structOwner(fa)
				_ = owner
				return strings.HasSuffix(path(fa.X), "Media") || strings.Contains(path(fa), "Media.&Hook") || strings.Contains(path(fa), ".&Media.&Hook")
			}
			target := ""
			if isHookField(st.Addr) {
				target = "field"
			} else if ia, ok := st.Addr.(*ssa.IndexAddr); ok {
				if ld, ok := ia.X.(*ssa.UnOp); ok && ld.Op == token.MUL && isHookField(ld.X) {
					target = "element"
				}
			}
			if target == "" {
				return
			}
			n++
			okDefault := false
			if target == "field" {
				// a literal of constants
				if sl, ok := st.Val.(*ssa.Slice); ok {
					if al, ok := sl.X.(*ssa.Alloc); ok {
						okDefault = true
						for _, r := range refs(al) {
							if ia, ok := r.(*ssa.IndexAddr); ok {
								for _, rr := range refs(ia) {
									if s2, ok := rr.(*ssa.Store); ok {
										if _, isC := s2.Val.(*ssa.Const); !isC {
											okDefault = false
										}
									}
								}
							}
						}
					}
				}
			}
			c.check(okDefault, fname+"/hook-store:"+target, P.InstrPos(in), fname, "the default hook, a literal of constants (overwritten by the decoder)",
				"the configured media hook is rewritten after it was read: the hook program no longer receives the argv the user configured (arguments dropped, changed or reordered)")
		})
	}
	c.check(n >= 1, "servitor/config/hook-stores", "config", "servitor/config", fmt.Sprintf("%d stores into Media.Hook", n), "no default hook is set any more (informational)")
}

// countsFromAtLeast: v is a loop counter — a phi whose edges from outside are
// constants >= k and whose other edges are the phi itself plus a positive
// constant.
func countsFromAtLeast(v ssa.Value, k int64) bool {
	ph, ok := v.(*ssa.Phi)
	if !ok {
		return false
	}
	for _, e := range ph.Edges {
		if c0, isC := constInt(e); isC {
			if c0 < k {
				return false
			}
			continue
		}
		bo, ok := e.(*ssa.BinOp)
		if !ok || bo.Op != token.ADD || bo.X != ssa.Value(ph) {
			return false
		}
		if step, isC := constInt(bo.Y); !isC || step < 1 {
			return false
		}
	}
	return true
}

// c20R9: "the media hook receives exactly the configured argv" presupposes
// that it is run. On every path from the entry of openExternally to a return
// the exec.Command call is passed, and so is the go statement that runs the
// command (seed C20-2r13 returned early for arguments that look like unknown
// placeholders).
func c20R9(c *Ctx) {
	P := c.P
	h := analyseHook(P)
	fname := FuncName(h.fn)
	if h.command == nil {
		c.bad(fname+"/exec", P.Pos(h.fn.Pos()), fname, "openExternally no longer calls exec.Command")
		return
	}
	var goStmt ssa.Instruction
	eachInstr(h.fn, func(_ *ssa.BasicBlock, _ int, in ssa.Instruction) {
		if g, ok := in.(*ssa.Go); ok && goStmt == nil {
			goStmt = g
		}
	})
	must := []ssa.Instruction{h.command}
	if goStmt != nil {
		must = append(must, goStmt)
	}
	for mi, m := range must {
		kind := []string{"exec.Command", "go"}[mi]
		escape := ""
		seen := map[*ssa.BasicBlock]bool{}
		work := []*ssa.BasicBlock{h.fn.Blocks[0]}
		for len(work) > 0 && escape == "" {
			b := work[len(work)-1]
			work = work[:len(work)-1]
			if seen[b] || b == m.Block() {
				continue
			}
			seen[b] = true
			if ret, ok := b.Instrs[len(b.Instrs)-1].(*ssa.Return); ok {
				escape = P.InstrPos(ret)
			}
			if _, isPanic := b.Instrs[len(b.Instrs)-1].(*ssa.Panic); isPanic {
				continue
			}
			work = append(work, b.Succs...)
		}
		c.check(escape == "", fname+"/always-runs:"+kind, P.InstrPos(m), fname, "passed on every way through openExternally",
			"openExternally can return (at "+escape+") without "+describeInstr(P, m)+": for some configurations or links the configured program is never run")
	}
}
