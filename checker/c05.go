package main

import (
	"fmt"
	"go/token"
	"go/types"
	"strings"

	"golang.org/x/tools/go/ssa"
)

func init() { registry["C05"] = propC05 }

func propC05() *Property {
	return &Property{
		ID:          "C05",
		Explanation: "Static typestate, dominance and error-discipline rules on the fetch path. Decided: (R1) every connection obtained from net/crypto/tls is given a deadline derived from time.Now() and the configured timeout before any Write, Read or hand-off to a reader, on every path, and the deadline is not renewed inside a loop; (R2) in jtp, client, object and pub no error result is dropped: every one is returned, wrapped, converted into a failure item, stored next to its value or classified with errors.Is, and the values that came with it are used only where it is known to be nil (or travel together with it); (R3) a body that fails to decode never becomes a document (shared with C03.R1); (R4) pub.NewFailure is never called with a possibly-nil error (it panics). (R5) the response head is parsed from complete lines only: every recogniser input is result #0 of ReadString('\\n') with the error known nil at the use (same rule as C03.R7), so a head that is cut off, stalls or is reset inside a line ends in an error. (R6) package-level state on the fetch path is written by initialisers only and shared documents are never updated in place (C08.R6 run here: two concurrent faults must not be able to crash the process); (R7) every acquisition on a channel that outlives the call is released on every path to every return of the function, error paths included. (R1, addition) every dial goes through a net.Dialer (or DialTimeout) whose Timeout is config.Parsed.Network.Timeout itself, so connecting and the handshake are bounded too. (R8) every index into the pieces of a split text is within the number of pieces known at that point (C06.K9 run here: a garbage status line must not crash the fetch). (R9) in package jtp no function makes two calls that reach the dialler on one path, nor one in a loop: one exchange per redirect hop (a retry wrapper would be re-entered by every hop and multiply). (R13) every read of the response that is repeated in a loop has its error tested inside that loop. Not decided: actual wall-clock bounds, kernel/TLS behaviour, what happens for a non-positive configured timeout (C19 demands its validation).",
		Assumptions: []string{
			"net.Conn deadlines bound every subsequent Read/Write on the connection (library semantics)",
			"encoding/json.Decoder reports an error for incomplete or trailing-garbage-free truncated objects",
			"singleflight.Group.Do returns the closure's value; lru.New fails only for size <= 0 (C19.R3)",
		},
		Rules: []Rule{
			{ID: "C05.R1", Title: "a deadline from the configured timeout precedes all connection I/O", Floor: 1, Run: c05R1},
			{ID: "C05.R2", Title: "no error dropped on the fetch path; values used only under err == nil", Floor: 129, Run: c05R2},
			{ID: "C05.R4", Title: "NewFailure never receives a possibly-nil error", Floor: 18, Run: c05R4},
			{ID: "C05.R5", Title: "a response head cut off mid-line is never parsed as a line", Floor: 3, Run: wholeLines},
			{ID: "C05.R6", Title: "the fetch path keeps no unsynchronised shared state (concurrent faults cannot crash the process)", Floor: 28, Run: c08R6},
			{ID: "C05.R8", Title: "garbage in a response cannot index past the pieces it was split into", Floor: 0, Run: splitIndexing},
			{ID: "C05.R7", Title: "whatever a fetch may block on is released on every path, the error paths included", Floor: 0, Run: c05R7},
			{ID: "C05.R11", Title: "a response cut short is refused: what is accepted went through the whole acceptance path, the decoder's verdict included (same instances as C03.R1)", Floor: 15, Run: c03R1},
			{ID: "C05.R13", Title: "a read that is repeated in a loop has its error tested inside that loop: a peer that stops sending ends the loop", Floor: 1, Run: c05R13},
			{ID: "C05.R12", Title: "the timeout that bounds dial, handshake and exchange is the validated, positive, scaled setting (same instances as C19.R3)", Floor: 15, Run: c19R3},
			{ID: "C05.R10", Title: "a flight is never joined from inside itself: nothing run by singleflight.Do reaches a Do on the same group", Floor: 1, Run: c05R10},
			{ID: "C05.R9", Title: "one exchange per hop: no function of the fetcher dials twice on a path or in a loop", Floor: 1, Run: c05R9},
		},
	}
}

// flowAll: a value-flow graph that tracks every type (numbers included).
func flowAll(P *Program) *Flow {
	if f, ok := P.cache["flowAll"]; ok {
		return f.(*Flow)
	}
	f := NewFlow(P, FlowConfig{Carries: func(types.Type) bool { return true }})
	P.cache["flowAll"] = f
	return f
}

func implementsNetConn(P *Program, t types.Type) bool {
	netPkg := P.LibPkg("net")
	if netPkg == nil {
		return false
	}
	obj := netPkg.Scope().Lookup("Conn")
	if obj == nil {
		return false
	}
	iface, ok := obj.Type().Underlying().(*types.Interface)
	if !ok {
		return false
	}
	return types.Implements(t, iface)
}

type connUse struct {
	in   ssa.Instruction
	kind string // "io", "deadline", "close", "other"
	what string
	rw   string // for deadlines: "rw", "r", "w"; for io: "r", "w", "rw"
}

func c05R1(c *Ctx) {
	P := c.P
	timeoutField := P.Field("servitor/config", "Config", "Network")
	_ = timeoutField
	var netTimeout *types.Var
	if st, ok := timeoutField.Type().Underlying().(*types.Struct); ok {
		for i := 0; i < st.NumFields(); i++ {
			if st.Field(i).Name() == "Timeout" {
				netTimeout = st.Field(i)
			}
		}
	}
	if netTimeout == nil {
		broken("config.Config.Network.Timeout not found")
	}
	nConns := 0
	for _, fn := range P.Funcs {
		eachInstr(fn, func(_ *ssa.BasicBlock, _ int, in ssa.Instruction) {
			call, ok := in.(*ssa.Call)
			if !ok {
				return
			}
			f := calleeObj(&call.Call)
			if f == nil || f.Pkg() == nil || (f.Pkg().Path() != "net" && f.Pkg().Path() != "crypto/tls") {
				return
			}
			res := call.Call.Signature().Results()
			if res.Len() == 0 || !implementsNetConn(P, res.At(0).Type()) {
				return
			}
			conn := resultValue(call, 0)
			if conn == nil {
				c.bad(FuncName(fn)+"/conn", P.InstrPos(in), FuncName(fn), "connection opened and discarded")
				return
			}
			nConns++
			// the dial and the handshake themselves are bounded by the configured timeout
			okDial, whyDial := dialBounded(P, call)
			c.check(okDial, FuncName(fn)+"/dial-bounded", P.InstrPos(in), FuncName(fn), "connecting (and the TLS handshake) is limited by the configured timeout", whyDial)
			uses := connUses(P, conn, 0)
			var deadlines []connUse
			for _, u := range uses {
				if u.kind == "deadline" {
					deadlines = append(deadlines, u)
				}
			}
			nIO := 0
			for _, u := range uses {
				if u.kind != "io" {
					continue
				}
				nIO++
				construct := FuncName(fn) + "/conn-io:" + u.what
				coveredR, coveredW := false, false
				why := "no SetDeadline call on this connection dominates it"
				for _, d := range deadlines {
					if !dominatesInstr(d.in, u.in) {
						continue
					}
					if inCycle(d.in.Block()) {
						why = "the deadline is renewed inside a loop: a peer that trickles one byte per interval is never timed out"
						continue
					}
					if msg := deadlineArgOK(P, d.in, netTimeout); msg != "" {
						why = msg
						continue
					}
					if strings.Contains(d.rw, "r") {
						coveredR = true
					}
					if strings.Contains(d.rw, "w") {
						coveredW = true
					}
				}
				ok := (!strings.Contains(u.rw, "r") || coveredR) && (!strings.Contains(u.rw, "w") || coveredW)
				c.check(ok, construct, P.InstrPos(u.in), FuncName(u.in.Parent()),
					"dominated by a deadline computed from time.Now() and the configured timeout",
					u.what+" on a network connection without a deadline: "+why+"; a silent or trickling peer blocks the fetch forever")
			}
			if nIO == 0 {
				c.note(FuncName(fn)+"/conn", P.InstrPos(in), FuncName(fn), "connection with no I/O uses")
			}
		})
	}
	// a deadline (re)armed anywhere else — typically inside a Read/Write wrapper
	// that runs once per I/O operation — turns the bound on the whole exchange
	// into a per-operation timeout that a trickling peer never hits
	dialFuncs := map[*ssa.Function]bool{}
	for _, fn := range P.Funcs {
		eachInstr(fn, func(_ *ssa.BasicBlock, _ int, in ssa.Instruction) {
			if call, ok := in.(*ssa.Call); ok {
				if f := calleeObj(&call.Call); f != nil && f.Pkg() != nil && (f.Pkg().Path() == "net" || f.Pkg().Path() == "crypto/tls") && strings.HasPrefix(f.Name(), "Dial") {
					dialFuncs[fn] = true
				}
			}
		})
	}
	for _, fn := range P.Funcs {
		eachInstr(fn, func(_ *ssa.BasicBlock, _ int, in ssa.Instruction) {
			cc := callOf(in)
			if cc == nil {
				return
			}
			f := calleeObj(cc)
			if f == nil || !(f.Name() == "SetDeadline" || f.Name() == "SetReadDeadline" || f.Name() == "SetWriteDeadline") {
				return
			}
			var recv ssa.Value
			if cc.IsInvoke() {
				recv = cc.Value
			} else if len(cc.Args) > 0 {
				recv = cc.Args[0]
			}
			if recv == nil || !implementsNetConn(P, recv.Type()) {
				return
			}
			okSite := dialFuncs[fn] && !inCycle(in.Block())
			if okSite {
				// the receiver must be the dial result of this very function
				okSite = false
				if ex, ok := recv.(*ssa.Extract); ok {
					if dc, ok := ex.Tuple.(*ssa.Call); ok {
						if df := calleeObj(&dc.Call); df != nil && strings.HasPrefix(df.Name(), "Dial") {
							okSite = true
						}
					}
				}
			}
			c.check(okSite, FuncName(fn)+"/deadline-site", P.InstrPos(in), FuncName(fn),
				"the deadline is set once, on the connection this function has just opened",
				f.Name()+" is called on a connection outside the function that opened it (or in a loop): a deadline renewed per read or write bounds each operation, not the exchange — a peer that trickles bytes is never timed out")
		})
	}
	c.info("connections", nConns)
	if nConns == 0 {
		unfollowed("no network connection is opened anywhere in the module: anchors of C05.R1 are gone")
	}
}

// connUses classifies every use of a connection value, following interface
// conversions and calls into servitor helpers.
func connUses(P *Program, conn ssa.Value, depth int) []connUse {
	var out []connUse
	if depth > 4 {
		return out
	}
	for _, r := range refs(conn) {
		switch x := r.(type) {
		case *ssa.MakeInterface:
			out = append(out, connUses(P, x, depth+1)...)
		case *ssa.ChangeInterface:
			out = append(out, connUses(P, x, depth+1)...)
		case *ssa.Phi:
			out = append(out, connUses(P, x, depth+1)...)
		case *ssa.Store:
			out = append(out, connUse{in: r, kind: "io", what: "store of the connection into memory", rw: "rw"})
		case ssa.CallInstruction:
			cc := x.Common()
			isRecv := (cc.IsInvoke() && cc.Value == conn) || (!cc.IsInvoke() && len(cc.Args) > 0 && cc.Args[0] == conn && calleeObj(cc) != nil && calleeObj(cc).Type().(*types.Signature).Recv() != nil)
			name := ""
			if f := calleeObj(cc); f != nil {
				name = f.Name()
			}
			if isRecv {
				switch name {
				case "SetDeadline":
					out = append(out, connUse{in: r, kind: "deadline", what: name, rw: "rw"})
				case "SetReadDeadline":
					out = append(out, connUse{in: r, kind: "deadline", what: name, rw: "r"})
				case "SetWriteDeadline":
					out = append(out, connUse{in: r, kind: "deadline", what: name, rw: "w"})
				case "Close", "LocalAddr", "RemoteAddr", "ConnectionState", "NetConn":
					out = append(out, connUse{in: r, kind: "close", what: name})
				case "Write":
					out = append(out, connUse{in: r, kind: "io", what: "Write", rw: "w"})
				case "Read":
					out = append(out, connUse{in: r, kind: "io", what: "Read", rw: "r"})
				default:
					out = append(out, connUse{in: r, kind: "io", what: name, rw: "rw"})
				}
				continue
			}
			// passed as an argument
			handled := false
			for _, callee := range P.Callees(x) {
				if !P.IsServitorFunc(callee) {
					continue
				}
				for i, a := range cc.Args {
					if a == conn && i < len(callee.Params) {
						handled = true
						sub := connUses(P, callee.Params[i], depth+1)
						// a helper that sets the deadline on every path counts as the deadline op at this call
						for _, s := range sub {
							if s.kind == "deadline" && dominatesAllReturns(s.in) && !inCycle(s.in.Block()) {
								out = append(out, connUse{in: r, kind: "deadline", what: s.what + " via " + callee.Name(), rw: s.rw})
							}
							if s.kind == "io" {
								out = append(out, connUse{in: r, kind: "io", what: s.what + " inside " + callee.Name(), rw: s.rw})
							}
						}
					}
				}
			}
			if !handled {
				rw := "r"
				if strings.Contains(strings.ToLower(name), "write") {
					rw = "w"
				}
				if name == "" {
					rw = "rw"
				}
				out = append(out, connUse{in: r, kind: "io", what: "hand-off to " + objFullName(calleeObj(cc)), rw: rw})
			}
		}
	}
	return out
}

func dominatesAllReturns(in ssa.Instruction) bool {
	fn := in.Parent()
	for _, b := range fn.Blocks {
		if r, ok := b.Instrs[len(b.Instrs)-1].(*ssa.Return); ok {
			if !dominatesInstr(in, r) {
				return false
			}
		}
	}
	return true
}

// deadlineArgOK: the time passed to Set*Deadline is time.Now() plus something
// derived from config.Parsed.Network.Timeout.
func deadlineArgOK(P *Program, d ssa.Instruction, timeout *types.Var) string {
	cc := callOf(d)
	var arg ssa.Value
	if cc.IsInvoke() {
		arg = cc.Args[0]
	} else {
		arg = cc.Args[1]
	}
	f := flowAll(P)
	_, visited := f.Backward(f.val(arg), nil)
	sawNow, sawTimeout := false, false
	for n := range visited {
		k := f.keys[n]
		if k.kind == nValue {
			if call, ok := k.v.(*ssa.Call); ok && isLibCall(&call.Call, "time", "", "Now") {
				sawNow = true
			}
		}
		if k.kind == nField && k.f == timeout {
			sawTimeout = true
		}
	}
	if !sawNow {
		return "the deadline is not computed from time.Now() (an absolute or zero time never expires relative to the request)"
	}
	if !sawTimeout {
		return "the deadline does not depend on the configured timeout (config.Parsed.Network.Timeout)"
	}
	return ""
}

// ---- R2 error discipline -----------------------------------------------------------

var c05Scope = []string{"servitor/jtp", "servitor/client", "servitor/object", "servitor/pub", "servitor/mime"}

type errUseKind int

const (
	uChecked errUseKind = iota
	uClassified
	uReturned
	uWrapped
	uStored
	uOther
)

// errUses classifies the transitive uses of an error value.
func errUses(e ssa.Value, seen map[ssa.Value]bool, out map[errUseKind][]ssa.Instruction) {
	if seen[e] {
		return
	}
	seen[e] = true
	for _, r := range refs(e) {
		switch x := r.(type) {
		case *ssa.BinOp:
			if (x.Op == token.EQL || x.Op == token.NEQ) && (isNilConst(x.X) || isNilConst(x.Y)) {
				out[uChecked] = append(out[uChecked], r)
			} else {
				out[uOther] = append(out[uOther], r)
			}
		case *ssa.Return:
			out[uReturned] = append(out[uReturned], r)
		case *ssa.Phi:
			errUses(x, seen, out)
		case *ssa.ChangeInterface:
			errUses(x, seen, out)
		case *ssa.MakeInterface:
			errUses(x, seen, out)
		case *ssa.Store:
			if x.Val != e {
				continue
			}
			// varargs slot: follow the slice into the call that receives it
			if ia, ok := x.Addr.(*ssa.IndexAddr); ok {
				if a, ok := ia.X.(*ssa.Alloc); ok && a.Comment == "varargs" {
					for _, ar := range refs(a) {
						if sl, ok := ar.(*ssa.Slice); ok {
							for _, sr := range refs(sl) {
								if ci, ok := sr.(ssa.CallInstruction); ok {
									classifyErrCall(ci, out, sr)
								}
							}
						}
					}
					continue
				}
			}
			out[uStored] = append(out[uStored], r)
		case ssa.CallInstruction:
			classifyErrCall(x, out, r)
		case *ssa.TypeAssert:
			out[uClassified] = append(out[uClassified], r)
		default:
			out[uOther] = append(out[uOther], r)
		}
	}
}

func classifyErrCall(ci ssa.CallInstruction, out map[errUseKind][]ssa.Instruction, r ssa.Instruction) {
	cc := ci.Common()
	switch {
	case isLibCall(cc, "errors", "", "Is"), isLibCall(cc, "errors", "", "As"):
		out[uClassified] = append(out[uClassified], r)
	case isLibCall(cc, "fmt", "", "Errorf"), isLibCall(cc, "errors", "", "Join"):
		out[uWrapped] = append(out[uWrapped], r)
	default:
		f := calleeObj(cc)
		if f != nil && f.Pkg() != nil && isServitorPath(f.Pkg().Path()) && (f.Name() == "NewFailure" || f.Name() == "Problem") {
			out[uWrapped] = append(out[uWrapped], r)
			return
		}
		if f != nil && f.Name() == "Error" {
			out[uWrapped] = append(out[uWrapped], r) // err.Error() turned into text
			return
		}
		out[uOther] = append(out[uOther], r)
	}
}

// errExempt: one named symbol per exception, with the reason.
func errExempt(fn *ssa.Function, call *ssa.Call) string {
	cc := &call.Call
	switch {
	case isLibCall(cc, "golang.org/x/sync/singleflight", "Group", "Do"):
		return "singleflight.Group.Do: the closure passed in client.FetchURL always returns a nil error (the fetch error travels inside the bundle)"
	case isLibCall(cc, "strings", "Builder", "WriteString"), isLibCall(cc, "strings", "Builder", "WriteByte"), isLibCall(cc, "strings", "Builder", "WriteRune"), isLibCall(cc, "strings", "Builder", "Write"),
		isLibCall(cc, "bytes", "Buffer", "WriteString"), isLibCall(cc, "bytes", "Buffer", "WriteByte"), isLibCall(cc, "bytes", "Buffer", "WriteRune"), isLibCall(cc, "bytes", "Buffer", "Write"):
		return "writing to an in-memory builder: documented to always return a nil error"
	case objFullName(calleeObj(cc)) == "github.com/hashicorp/golang-lru/v2.New":
		return "lru.New fails only for a non-positive size, which C19.R3 requires the configuration to reject"
	}
	return ""
}

func c05R2(c *Ctx) {
	P := c.P
	nCalls := 0
	for _, fn := range P.FuncsIn(c05Scope...) {
		fname := FuncName(fn)
		eachInstr(fn, func(_ *ssa.BasicBlock, _ int, in ssa.Instruction) {
			call, ok := in.(*ssa.Call)
			if !ok {
				return
			}
			e, returnsErr := errorResult(call)
			if !returnsErr {
				return
			}
			nCalls++
			callee := objFullName(calleeObj(&call.Call))
			construct := fname + "/err:" + trimPkg(callee)
			if why := errExempt(fn, call); why != "" {
				c.ok(construct, P.InstrPos(in), fname, "exempt: "+why)
				return
			}
			if e == nil {
				if fn.Name() == "FetchFromFile" && strings.Contains(callee, "Decode") {
					c.note(construct, P.InstrPos(in), fname, "decode error of a local file ignored: outside this property's (network) fault model")
					return
				}
				if strings.HasSuffix(callee, ".Close") {
					// closing after the outcome is decided
				}
				c.bad(construct, P.InstrPos(in), fname, "the error returned by "+callee+" is discarded")
				return
			}
			uses := map[errUseKind][]ssa.Instruction{}
			errUses(e, map[ssa.Value]bool{}, uses)
			carried := len(uses[uReturned]) + len(uses[uWrapped]) + len(uses[uStored])
			if carried == 0 {
				// checked only: acceptable when the non-nil branch still ends in an error
				okBranch := false
				for _, chk := range uses[uChecked] {
					if nonNilBranchFails(chk.(*ssa.BinOp)) {
						okBranch = true
					}
				}
				if len(uses[uClassified]) > 0 && len(uses[uChecked]) == 0 {
					c.bad(construct, P.InstrPos(in), fname, "the error of "+callee+" is only classified with errors.Is; the unclassified case is dropped")
					return
				}
				if !okBranch {
					c.bad(construct, P.InstrPos(in), fname, "the error of "+callee+" is never returned, wrapped, converted or stored")
					return
				}
			}
			// classified-only without a general check
			if len(uses[uClassified]) > 0 && len(uses[uChecked]) == 0 && len(uses[uStored]) == 0 && len(uses[uReturned]) == 0 && len(uses[uWrapped]) == 0 {
				c.bad(construct, P.InstrPos(in), fname, "the error of "+callee+" is classified but the remaining case is not handled")
				return
			}
			// (ii) the values that came with the error
			problem := ""
			n := call.Call.Signature().Results().Len()
			for i := 0; i < n-1; i++ {
				rv := resultValue(call, i)
				if rv == nil {
					continue
				}
				if msg := valueUsesGuarded(P, rv, e, map[ssa.Value]bool{}); msg != "" {
					problem = fmt.Sprintf("result #%d of %s %s", i, trimPkg(callee), msg)
				}
			}
			c.check(problem == "", construct, P.InstrPos(in), fname,
				"error is returned / wrapped / converted / stored; accompanying values are used only under err == nil or travel with it",
				problem)
		})
	}
	c.info("error_returning_calls", nCalls)
}

// nonNilBranchFails: on the edge where the comparison says e != nil, every
// reachable return carries a non-nil error or a failure item.
func nonNilBranchFails(cmp *ssa.BinOp) bool {
	for _, r := range refs(cmp) {
		iff, ok := r.(*ssa.If)
		if !ok {
			continue
		}
		b := iff.Block()
		branch := b.Succs[0]
		if cmp.Op == token.EQL {
			branch = b.Succs[1]
		}
		// every return reachable from branch (without leaving the region dominated by it)
		okAll := true
		any := false
		seen := map[*ssa.BasicBlock]bool{}
		var walk func(x *ssa.BasicBlock)
		walk = func(x *ssa.BasicBlock) {
			if seen[x] {
				return
			}
			seen[x] = true
			if !branch.Dominates(x) {
				okAll = false // falls back into normal flow
				return
			}
			if ret, ok := x.Instrs[len(x.Instrs)-1].(*ssa.Return); ok {
				any = true
				res := ret.Results
				if len(res) == 0 {
					okAll = false
					return
				}
				last := res[len(res)-1]
				if isNilConst(last) {
					okAll = false
				}
				return
			}
			for _, s := range x.Succs {
				walk(s)
			}
		}
		walk(branch)
		if okAll && any {
			return true
		}
	}
	return false
}

// valueUsesGuarded: every use of value v (a result accompanying error e) is
// either under the fact e == nil, or moves v together with e (paired store,
// forwarding return, parallel phi).
func valueUsesGuarded(P *Program, v, e ssa.Value, seen map[ssa.Value]bool) string {
	if seen[v] {
		return ""
	}
	seen[v] = true
	for _, r := range refs(v) {
		b := r.Block()
		if knownNil(e, b) {
			continue
		}
		switch x := r.(type) {
		case *ssa.Return:
			// forwarding return: the same return carries e
			fw := false
			for _, res := range x.Results {
				if res == e || derivesFrom(res, e, 3) {
					fw = true
				}
			}
			if fw {
				continue
			}
			return "is returned at " + P.InstrPos(r) + " on a path where the error has not been checked"
		case *ssa.Store:
			// paired store: the same block stores e as well
			paired := false
			for _, in := range b.Instrs {
				if st, ok := in.(*ssa.Store); ok && (st.Val == e || derivesFrom(st.Val, e, 2)) {
					paired = true
				}
			}
			if paired {
				continue
			}
			// assignment to a local variable: the variable's reads must be guarded
			if a, ok := resolveCell(x.Addr).(*ssa.Alloc); ok && x.Val == v {
				if msg := allocReadsGuarded(P, a, e); msg != "" {
					return msg
				}
				continue
			}
			// `if x.f, err = g(); err != nil { return ..., err }`: stored, then
			// checked at once, and the failing branch abandons the object
			if iff, ok := b.Instrs[len(b.Instrs)-1].(*ssa.If); ok {
				if cmp, ok := iff.Cond.(*ssa.BinOp); ok && (cmp.X == e || cmp.Y == e) && nonNilBranchFails(cmp) {
					continue
				}
			}
			return "is stored at " + P.InstrPos(r) + " without its error"
		case *ssa.Phi:
			// parallel phi: a sibling phi in the same block takes e on the same edge
			var sibling *ssa.Phi
			for _, in := range b.Instrs {
				ph, ok := in.(*ssa.Phi)
				if !ok {
					break
				}
				for k, ed := range ph.Edges {
					if ed == e && k < len(x.Edges) && x.Edges[k] == v {
						sibling = ph
					}
				}
			}
			if sibling != nil {
				if msg := valueUsesGuarded(P, x, sibling, seen); msg != "" {
					return msg
				}
				continue
			}
			// edge facts: the predecessor that supplies v knows e == nil
			okEdge := true
			for k, ed := range x.Edges {
				if ed != v {
					continue
				}
				pred := b.Preds[k]
				if knownNil(e, pred) {
					continue
				}
				if iff, ok := pred.Instrs[len(pred.Instrs)-1].(*ssa.If); ok {
					m := map[Fact]bool{}
					addCondFacts(m, iff.Cond, pred.Succs[0] == b)
					edgeOK := false
					for f := range m {
						if cmp, ok := f.Cmp(); ok && cmp.Op == token.EQL && ((cmp.X == e && isNilConst(cmp.Y)) || (cmp.Y == e && isNilConst(cmp.X))) {
							edgeOK = true
						}
					}
					if edgeOK {
						continue
					}
				}
				okEdge = false
			}
			if okEdge {
				continue
			}
			return "merges into later code at " + P.InstrPos(r) + " on a path where the error has not been checked"
		case *ssa.DebugRef:
			continue
		case *ssa.ChangeType, *ssa.Convert, *ssa.MakeInterface, *ssa.ChangeInterface:
			// a conversion moves the value; what matters is where the result is used
			if msg := valueUsesGuarded(P, x.(ssa.Value), e, seen); msg != "" {
				return msg
			}
			continue
		default:
			return "is used at " + P.InstrPos(r) + " on a path where the error has not been checked"
		}
	}
	return ""
}

// derivesFrom: v is e or a phi / interface conversion / wrapping call of e.
func derivesFrom(v, e ssa.Value, depth int) bool {
	if v == e {
		return true
	}
	if depth == 0 {
		return false
	}
	switch x := v.(type) {
	case *ssa.Phi:
		for _, ed := range x.Edges {
			if derivesFrom(ed, e, depth-1) {
				return true
			}
		}
	case *ssa.ChangeInterface:
		return derivesFrom(x.X, e, depth-1)
	case *ssa.MakeInterface:
		return derivesFrom(x.X, e, depth-1)
	}
	return false
}

// ---- R4 -----------------------------------------------------------------------

func c05R4(c *Ctx) {
	P := c.P
	nf := P.Func("servitor/pub", "NewFailure")
	for _, e := range P.Callers(nf) {
		if e.Site == nil {
			continue
		}
		fn := e.Caller.Func
		arg := e.Site.Common().Args[0]
		construct := FuncName(fn) + "/NewFailure"
		ok, why := nonNilErrorArg(arg, e.Site.Block(), 0)
		c.check(ok, construct, P.InstrPos(e.Site), FuncName(fn), why,
			"pub.NewFailure may receive a nil error here and panics on it: "+why)
	}
}

func nonNilErrorArg(v ssa.Value, b *ssa.BasicBlock, depth int) (bool, string) {
	if isNilConst(v) {
		return false, "nil constant"
	}
	switch x := v.(type) {
	case *ssa.Call:
		if isLibCall(&x.Call, "errors", "", "New") || isLibCall(&x.Call, "fmt", "", "Errorf") {
			return true, "freshly created error (errors.New / fmt.Errorf never return nil)"
		}
	case *ssa.MakeInterface:
		return true, "concrete error value"
	case *ssa.Phi:
		if depth < 3 {
			all := true
			for k, ed := range x.Edges {
				pred := x.Block().Preds[k]
				if ok, _ := nonNilErrorArg(ed, pred, depth+1); !ok {
					all = false
				}
			}
			if all {
				return true, "non-nil on every incoming edge"
			}
		}
	}
	if knownNonNil(v, b) {
		return true, "dominated by the fact err != nil"
	}
	// errors.Is(v, sentinel) true implies v != nil
	ft := factsOf(b.Parent())
	p := path(v)
	for _, f := range ft.At(b) {
		if e, _, truth, ok := f.ErrorsIs(); ok && truth && (e == v || path(e) == p) {
			return true, "errors.Is(err, sentinel) holds, so err is non-nil"
		}
	}
	return false, "no dominating check establishes err != nil"
}

// allocReadsGuarded: every read of local variable a happens where e == nil is
// known (reads inside a closure: where the closure is created).
func allocReadsGuarded(P *Program, a *ssa.Alloc, e ssa.Value) string {
	root := a.Parent()
	msg := ""
	var visit func(fn *ssa.Function, created *ssa.BasicBlock)
	visit = func(fn *ssa.Function, created *ssa.BasicBlock) {
		eachInstr(fn, func(b *ssa.BasicBlock, _ int, in ssa.Instruction) {
			if u, ok := in.(*ssa.UnOp); ok && u.Op == token.MUL && resolveCell(u.X) == ssa.Value(a) {
				at := b
				if created != nil {
					at = created
				}
				if !knownNil(e, at) {
					msg = "is read from variable " + a.Comment + " at " + P.InstrPos(in) + " on a path where the error has not been checked"
				}
			}
			if mc, ok := in.(*ssa.MakeClosure); ok {
				at := b
				if created != nil {
					at = created
				}
				visit(mc.Fn.(*ssa.Function), at)
			}
		})
	}
	visit(root, nil)
	return msg
}

// c05R7: a fetch must end, also after earlier fetches failed. Blocking
// primitives that are not bounded by the connection deadline — a slot of a
// channel used as a semaphore, a token taken from a channel — must be given
// back on every path from the acquisition to every return of the function
// (directly or by a defer), the early returns of error paths included. A slot
// that leaks on the error path makes every fetch after the n-th fault block
// for ever, before it even reaches the code that has a deadline. (Mutex
// pairing is C08.R3, which covers the whole module; WaitGroups C08.R5.)
func c05R7(c *Ctx) {
	P := c.P
	n := 0
	chanOf := func(in ssa.Instruction) (ssa.Value, string) {
		switch x := in.(type) {
		case *ssa.Send:
			return x.Chan, "send"
		case *ssa.UnOp:
			if x.Op == token.ARROW {
				return x.X, "recv"
			}
		}
		return nil, ""
	}
	for _, fn := range P.Funcs {
		fname := FuncName(fn)
		eachInstr(fn, func(b *ssa.BasicBlock, idx int, in ssa.Instruction) {
			ch, kind := chanOf(in)
			if ch == nil {
				return
			}
			// only channels that outlive the call: package-level or captured
			cp := path(ch)
			if !strings.HasPrefix(cp, "global:") && !strings.Contains(cp, "cell:") && !strings.HasPrefix(cp, "param:") {
				return
			}
			// is this the acquiring side? the first operation on the channel on its path from the entry
			acquired := true
			eachInstr(fn, func(b2 *ssa.BasicBlock, _ int, in2 ssa.Instruction) {
				if in2 == in {
					return
				}
				if ch2, _ := chanOf(in2); ch2 != nil && path(ch2) == cp && dominatesInstr(in2, in) {
					acquired = false // an earlier operation on the same channel dominates this one: this is the release
				}
			})
			if !acquired {
				return
			}
			n++
			opposite := map[string]string{"send": "recv", "recv": "send"}[kind]
			isRelease := func(in2 ssa.Instruction) bool {
				if ch2, k2 := chanOf(in2); ch2 != nil && k2 == opposite && path(ch2) == cp {
					return true
				}
				if df, ok := in2.(*ssa.Defer); ok {
					var cl *ssa.Function
					switch f := df.Call.Value.(type) {
					case *ssa.MakeClosure:
						cl = f.Fn.(*ssa.Function)
					case *ssa.Function:
						cl = f
					}
					found := false
					if cl != nil {
						eachInstr(cl, func(_ *ssa.BasicBlock, _ int, in3 ssa.Instruction) {
							if ch3, k3 := chanOf(in3); ch3 != nil && k3 == opposite && path(ch3) == cp {
								found = true
							}
						})
					}
					return found
				}
				return false
			}
			// a return reachable from the acquisition without passing a release
			leak := ""
			seen := map[*ssa.BasicBlock]bool{}
			var walk func(blk *ssa.BasicBlock, start int) bool
			walk = func(blk *ssa.BasicBlock, start int) bool {
				for i := start; i < len(blk.Instrs); i++ {
					if isRelease(blk.Instrs[i]) {
						return false
					}
					if r, ok := blk.Instrs[i].(*ssa.Return); ok {
						leak = P.InstrPos(r)
						return true
					}
				}
				for _, s := range blk.Succs {
					if seen[s] {
						continue
					}
					seen[s] = true
					if walk(s, 0) {
						return true
					}
				}
				return false
			}
			leaks := walk(b, idx+1)
			c.check(!leaks, fname+"/released:"+kind, P.InstrPos(in), fname, "the slot taken here is given back on every path to every return",
				"what is taken from the channel here is not given back on the path to the return at "+leak+": after enough fetches have left through that path (an error, typically) every later fetch blocks for ever, beyond the reach of any deadline")
		})
	}
	c.info("blocking_acquisitions", n)
	c.ok("module/blocking-acquisitions", "", "module", fmt.Sprintf("%d channel acquisitions in the module, each checked for release on every path", n))
}

// dialBounded: the dial is made through a net.Dialer whose Timeout is the
// configured network timeout (the value C19 validates as positive), or with
// net.DialTimeout on that value. tls.DialWithDialer applies the dialer's
// timeout to the handshake as well. A dialer whose Timeout is some other
// quantity (a fraction that can truncate to zero, say) has no limit at all when
// that quantity is zero.
func dialBounded(P *Program, call *ssa.Call) (bool, string) {
	f := calleeObj(&call.Call)
	isTimeout := func(v ssa.Value) bool {
		p := path(v)
		return strings.HasPrefix(p, "global:servitor/config.Parsed") && strings.HasSuffix(p, ".&Network.&Timeout.*")
	}
	if f.Pkg().Path() == "net" && f.Name() == "DialTimeout" && len(call.Call.Args) == 3 {
		if isTimeout(call.Call.Args[2]) {
			return true, ""
		}
		return false, "net.DialTimeout is not given the configured network timeout"
	}
	var dialer ssa.Value
	sig := f.Type().(*types.Signature)
	switch {
	case f.Name() == "DialWithDialer" && len(call.Call.Args) > 0:
		dialer = call.Call.Args[0]
	case sig.Recv() != nil && len(call.Call.Args) > 0:
		dialer = call.Call.Args[0]
	default:
		return false, "the connection is opened by " + f.FullName() + ", which has no time limit: a peer that accepts and then stays silent during the handshake blocks the fetch for ever"
	}
	// the dialer: a package-level variable initialised with a literal
	v := unwrapLoad(dialer)
	var lit *ssa.Alloc
	if ld, ok := v.(*ssa.UnOp); ok && ld.Op == token.MUL {
		if g, ok := ld.X.(*ssa.Global); ok {
			for _, fn := range P.FuncsIn(g.Pkg.Pkg.Path()) {
				eachInstr(fn, func(_ *ssa.BasicBlock, _ int, in ssa.Instruction) {
					if st, ok := in.(*ssa.Store); ok && st.Addr == ssa.Value(g) {
						if a, ok := st.Val.(*ssa.Alloc); ok {
							lit = a
						}
					}
				})
			}
		}
	}
	if a, ok := v.(*ssa.Alloc); ok {
		lit = a
	}
	if lit == nil {
		return false, "cannot identify the net.Dialer the connection is opened with"
	}
	okT := false
	for _, r := range refs(lit) {
		fa, ok := r.(*ssa.FieldAddr)
		if !ok {
			continue
		}
		name := fieldOf(fa).Name()
		// a tls.Dialer wraps a NetDialer
		if name == "NetDialer" {
			for _, rr := range refs(fa) {
				if st, ok := rr.(*ssa.Store); ok {
					if inner, ok := st.Val.(*ssa.Alloc); ok {
						for _, r2 := range refs(inner) {
							if fa2, ok := r2.(*ssa.FieldAddr); ok && fieldOf(fa2).Name() == "Timeout" {
								for _, r3 := range refs(fa2) {
									if st2, ok := r3.(*ssa.Store); ok && isTimeout(st2.Val) {
										okT = true
									}
								}
							}
						}
					}
				}
			}
		}
		if name != "Timeout" {
			continue
		}
		for _, rr := range refs(fa) {
			if st, ok := rr.(*ssa.Store); ok && isTimeout(st.Val) {
				okT = true
			}
		}
	}
	if !okT {
		return false, "the dialer's Timeout is not the configured network timeout (the value that is validated as positive): if what it is set to can be zero, connecting and the TLS handshake have no time limit"
	}
	return true, ""
}

// c05R9: "timely" is one timeout per hop, and the hops are bounded by the
// redirect budget (C03). That arithmetic holds only if a call of the fetcher
// makes one exchange: in package jtp no function calls a function that reaches
// the dialler twice on one path, nor in a loop — a retry wrapper around the
// exchange is re-entered by every redirect hop and multiplies: n redirects in
// front of a stalling host cost 2^(n+1) timeouts (seed C05-2r7).
func c05R9(c *Ctx) {
	P := c.P
	// functions of the module that reach a dial
	dials := func(fn *ssa.Function) bool {
		found := false
		eachInstr(fn, func(_ *ssa.BasicBlock, _ int, in ssa.Instruction) {
			if cc := callOf(in); cc != nil {
				if f := calleeObj(cc); f != nil && f.Pkg() != nil && (f.Pkg().Path() == "crypto/tls" || f.Pkg().Path() == "net") && strings.HasPrefix(f.Name(), "Dial") {
					found = true
				}
			}
		})
		return found
	}
	reach := map[*ssa.Function]bool{}
	for _, fn := range P.Funcs {
		if dials(fn) {
			reach[fn] = true
		}
	}
	for changed := true; changed; {
		changed = false
		for _, fn := range P.Funcs {
			if reach[fn] {
				continue
			}
			eachInstr(fn, func(_ *ssa.BasicBlock, _ int, in ssa.Instruction) {
				if reach[fn] {
					return
				}
				if ci, ok := in.(ssa.CallInstruction); ok {
					for _, callee := range P.Callees(ci) {
						if reach[callee] {
							reach[fn] = true
							changed = true
						}
					}
				}
				if mc, ok := in.(*ssa.MakeClosure); ok && reach[mc.Fn.(*ssa.Function)] {
					reach[fn] = true
					changed = true
				}
			})
		}
	}
	n := 0
	for _, fn := range P.FuncsIn("servitor/jtp") {
		if !reach[fn] || len(fn.Blocks) == 0 {
			continue
		}
		fname := FuncName(fn)
		// the calls of module functions that reach the dialler
		sites := map[*ssa.BasicBlock][]ssa.Instruction{}
		eachInstr(fn, func(b *ssa.BasicBlock, _ int, in ssa.Instruction) {
			ci, ok := in.(ssa.CallInstruction)
			if !ok {
				return
			}
			for _, callee := range P.Callees(ci) {
				if P.IsServitorFunc(callee) && reach[callee] {
					sites[b] = append(sites[b], in)
					return
				}
			}
		})
		if len(sites) == 0 {
			continue
		}
		n++
		heads := loopHeads(fn)
		why := ""
		for b, ins := range sites {
			for h := range heads {
				if h.Dominates(b) && blockReaches(b, h) {
					why = "the exchange is started in a loop (" + P.InstrPos(ins[0]) + ")"
				}
			}
		}
		if why == "" {
			for _, b := range fn.Blocks {
				if _, isRet := b.Instrs[len(b.Instrs)-1].(*ssa.Return); !isRet {
					continue
				}
				paths, complete := enumeratePaths(fn, b, 20000)
				if !complete {
					why = "too many paths to count the exchanges on"
					break
				}
				for _, pf := range paths {
					k := 0
					var second ssa.Instruction
					for _, pb := range pf.blocks {
						for _, in := range sites[pb] {
							k++
							if k == 2 {
								second = in
							}
						}
					}
					if k >= 2 {
						why = "a second exchange is started on one path (" + P.InstrPos(second) + "): a retry or a second request per hop"
					}
				}
				if why != "" {
					break
				}
			}
		}
		c.check(why == "", fname+"/one-exchange", P.Pos(fn.Pos()), fname, "at most one call that reaches the dialler on any path, none in a loop", fname+": "+why+" — the time a fetch can take is no longer one timeout per redirect hop")
	}
	c.info("fetcher_functions", n)
}

// c05R10: requests in flight are merged with singleflight. A function that runs
// inside Do and can reach a Do on the same group — the fetcher recursing
// through its own deduplication for a redirect — waits for itself as soon as
// the key repeats (a redirect cycle): no connection is open at that point, so
// no deadline ever fires and the fetch never ends (seeds C05-1r8 / C03-1r8).
func c05R10(c *Ctx) {
	P := c.P
	type doSite struct {
		fn    *ssa.Function
		call  ssa.CallInstruction
		group string
		work  *ssa.Function
	}
	var sites []doSite
	for _, fn := range P.Funcs {
		eachInstr(fn, func(_ *ssa.BasicBlock, _ int, in ssa.Instruction) {
			ci, ok := in.(ssa.CallInstruction)
			if !ok {
				return
			}
			cc := ci.Common()
			fo := calleeObj(cc)
			if fo == nil || fo.Pkg() == nil || !strings.HasSuffix(fo.Pkg().Path(), "singleflight") || (fo.Name() != "Do" && fo.Name() != "DoChan") || len(cc.Args) < 3 {
				return
			}
			var work *ssa.Function
			switch w := cc.Args[2].(type) {
			case *ssa.Function:
				work = w
			case *ssa.MakeClosure:
				work, _ = w.Fn.(*ssa.Function)
			}
			sites = append(sites, doSite{fn, ci, path(cc.Args[0]), work})
		})
	}
	for _, s := range sites {
		fname := FuncName(s.fn)
		if s.work == nil {
			c.bad(fname+"/flight", P.InstrPos(s.call), fname, "what runs inside singleflight.Do cannot be identified")
			continue
		}
		reach := map[*ssa.Function]bool{s.work: true}
		work := []*ssa.Function{s.work}
		for len(work) > 0 {
			f := work[0]
			work = work[1:]
			eachInstr(f, func(_ *ssa.BasicBlock, _ int, in ssa.Instruction) {
				if ci, ok := in.(ssa.CallInstruction); ok {
					for _, callee := range P.Callees(ci) {
						if P.IsServitorFunc(callee) && !reach[callee] {
							reach[callee] = true
							work = append(work, callee)
						}
					}
				}
				if mc, ok := in.(*ssa.MakeClosure); ok {
					if cf := mc.Fn.(*ssa.Function); !reach[cf] {
						reach[cf] = true
						work = append(work, cf)
					}
				}
			})
		}
		again := ""
		for _, s2 := range sites {
			if s2.group == s.group && reach[s2.fn] {
				again = P.InstrPos(s2.call)
			}
		}
		c.check(again == "", fname+"/flight", P.InstrPos(s.call), fname, "nothing that runs inside this flight can join a flight of the same group",
			"what runs inside singleflight.Do here can reach the Do on the same group at "+again+": when the key repeats (a redirect that leads back to a URL already being fetched) the fetch waits for itself, with no connection open and no deadline running")
	}
}

// naturalLoops: for every back edge T -> H (H dominates T) the set of blocks of
// the natural loop: H and everything that reaches T without passing through H.
func naturalLoops(fn *ssa.Function) []map[*ssa.BasicBlock]bool {
	var loops []map[*ssa.BasicBlock]bool
	for _, h := range fn.Blocks {
		for _, t := range h.Preds {
			if !h.Dominates(t) {
				continue
			}
			body := map[*ssa.BasicBlock]bool{h: true}
			work := []*ssa.BasicBlock{t}
			for len(work) > 0 {
				b := work[len(work)-1]
				work = work[:len(work)-1]
				if body[b] {
					continue
				}
				body[b] = true
				work = append(work, b.Preds...)
			}
			loops = append(loops, body)
		}
	}
	return loops
}

// c05R13: jtp reads the response line by line in loops. The deadline turns a
// silent peer into a read error; the loop ends in a timely error only if that
// error is looked at before the next trip. For every read of the connection's
// reader inside a loop of package jtp: a test of its error result (err != nil,
// err == nil, errors.Is) sits in a block of the innermost natural loop that
// contains the read. A test after the loop (seed C05-1r13) is never reached
// when the reads fail: ReadString keeps returning "" and the loop spins.
func c05R13(c *Ctx) {
	P := c.P
	for _, fn := range P.FuncsIn("servitor/jtp") {
		loops := naturalLoops(fn)
		if len(loops) == 0 {
			continue
		}
		fname := FuncName(fn)
		eachInstr(fn, func(b *ssa.BasicBlock, _ int, in ssa.Instruction) {
			call, ok := in.(*ssa.Call)
			if !ok {
				return
			}
			f := calleeObj(&call.Call)
			if f == nil || f.Pkg() == nil {
				return
			}
			switch f.Pkg().Path() {
			case "bufio", "io", "net", "crypto/tls", "net/textproto", "encoding/json":
			default:
				return
			}
			if !strings.HasPrefix(f.Name(), "Read") && f.Name() != "Decode" && f.Name() != "Peek" && f.Name() != "Discard" {
				return
			}
			e, _ := errorResult(call)
			if e == nil {
				return
			}
			// the innermost loop around the read
			var inner map[*ssa.BasicBlock]bool
			for _, l := range loops {
				if l[b] && (inner == nil || len(l) < len(inner)) {
					inner = l
				}
			}
			if inner == nil {
				return
			}
			// values that carry the error: the result itself, cells it is stored to, phis of it
			carries := map[ssa.Value]bool{e: true}
			var cells []ssa.Value
			for _, r := range refs(e) {
				switch x := r.(type) {
				case *ssa.Store:
					cells = append(cells, x.Addr)
				case *ssa.Phi:
					carries[x] = true
				}
			}
			tested := false
			for blk := range inner {
				for _, bi := range blk.Instrs {
					switch x := bi.(type) {
					case *ssa.BinOp:
						if x.Op != token.NEQ && x.Op != token.EQL {
							continue
						}
						for _, side := range []ssa.Value{x.X, x.Y} {
							if carries[side] {
								tested = true
							}
							if ld, ok := side.(*ssa.UnOp); ok && ld.Op == token.MUL {
								for _, cell := range cells {
									if ld.X == cell {
										tested = true
									}
								}
							}
						}
					case *ssa.Call:
						if isLibCall(&x.Call, "errors", "", "Is") || isLibCall(&x.Call, "errors", "", "As") {
							if carries[unwrapLoad(x.Call.Args[0])] || carries[x.Call.Args[0]] {
								tested = true
							}
						}
					case *ssa.Return:
						for _, rv := range x.Results {
							if carries[rv] {
								tested = true // handed to the caller from inside the loop
							}
						}
					}
				}
			}
			c.check(tested, fname+"/read-in-loop:"+f.Name(), P.InstrPos(in), fname, "the error of the repeated read is looked at inside the loop",
				"the error of "+f.Name()+", which is called in a loop, is not tested inside that loop: when the peer stops sending (or the deadline passes) the read fails again and again and the loop never ends — no error, no document, the fetch hangs at full speed")
		})
	}
}
