package main

import (
	"fmt"
	"go/token"
	"go/types"
	"regexp/syntax"
	"sort"
	"strings"

	"golang.org/x/tools/go/ssa"
)

func init() { registry["C03"] = propC03 }

func propC03() *Property {
	return &Property{
		ID:          "C03",
		Explanation: "Static path, dominance and table rules on jtp.Get and its helpers. Decided: (R1) every return of jtp.Get is an error return, a cache hit, the forwarded result of the recursive redirect call, or a success return that is dominated — in this order — by the https scheme test, the dial, a checked parseStatusLine, a status whitelist within {200,201,202,203} on every path, a checked validateHeaders on the frame's own tolerated list, and a checked JSON decode into the very map that is returned, with the frame's own URL as source; (R2) redirects are bounded: the only recursion passes maxRedirects minus a positive constant under maxRedirects != 0, the budget is unsigned and constant at every external call site, and there is one dial and one request per frame; (R3) the redirect target is the Location header resolved against the frame's own URL, a missing Location is an error, and the redirect branch is entered only for 3xx; (R4) validateHeaders returns nil only after at least one Content-Type header matched the tolerated list and no Content-Type header failed to match; MediaType.Matches is an equality test against the list; (R5) the status line recogniser is anchored and captures exactly three digits; (R6) the cache is keyed by everything that shapes the request and never stores an outcome that depends on the remaining redirect budget. (R6, addition) the cache key contains link.String(), the complete URL, so URLs that differ in scheme or fragment never share an entry; (R7) every string given to a status/header recogniser or compared with the end-of-head marker is a constant or result #0 of (*bufio.Reader).ReadString('\\n') at a point where that call's error is known nil: fragments of over-long or truncated lines (ReadLine, ReadSlice, Scanner) are never parsed as header lines. (R8) every singleflight key in the module is uri.String() of the URL fetched inside the shared function. (R1, addition) the success return knows the decoded map to be non-nil: encoding/json decodes the body `null` into a nil map without an error. Not decided: that the header regexps recognise exactly the HTTP grammar, JSON decoding itself, LRU eviction.",
		Assumptions: []string{
			"regexp, encoding/json, net/url and lru behave as documented",
			"a successful json.Decoder.Decode into a non-nil *map[string]any has read a JSON object (null leaves the map nil: checked)",
		},
		Rules: []Rule{
			{ID: "C03.R1", Title: "every return of jtp.Get is classified; success passes all acceptance tests", Floor: 15, Run: c03R1},
			{ID: "C03.R2", Title: "redirect budget strictly decreases; one request per frame", Floor: 6, Run: c03R2},
			{ID: "C03.R3", Title: "Location is resolved against the issuing URL; missing Location is an error", Floor: 4, Run: c03R3},
			{ID: "C03.R4", Title: "content-type rule in validateHeaders and MediaType.Matches", Floor: 6, Run: c03R4},
			{ID: "C03.R5", Title: "status line recogniser shape", Floor: 4, Run: c03R5},
			{ID: "C03.R6", Title: "cache key completeness; no budget-dependent outcome cached", Floor: 6, Run: c03R6},
			{ID: "C03.R7", Title: "status and header recognisers see whole lines only", Floor: 3, Run: wholeLines},
			{ID: "C03.R8", Title: "concurrent fetches are shared only between identical URLs", Floor: 1, Run: c03R8},
			{ID: "C03.R9", Title: "what FetchURL hands out is the (document, source, error) bundle of the flight it joined — joiners included (same instances as C02.R5)", Floor: 2, Run: c02R5},
		},
	}
}

type getShape struct {
	P          *Program
	fn         *ssa.Function
	link       *ssa.Parameter
	accept     *ssa.Parameter
	tolerated  *ssa.Parameter
	budget     *ssa.Parameter
	dial       *ssa.Call
	conn       ssa.Value
	recursive  []*ssa.Call
	statusCall *ssa.Call
	status     ssa.Value
}

func analyseGet(P *Program) *getShape {
	fn := P.Func("servitor/jtp", "Get")
	g := &getShape{P: P, fn: fn}
	for _, p := range fn.Params {
		switch {
		case isNamed(p.Type(), "net/url", "URL"):
			g.link = p
		case types.Identical(p.Type(), types.Typ[types.String]):
			g.accept = p
		default:
			if sl, ok := p.Type().Underlying().(*types.Slice); ok && types.Identical(sl.Elem(), types.Typ[types.String]) {
				g.tolerated = p
			} else if b, ok := p.Type().Underlying().(*types.Basic); ok && b.Info()&types.IsInteger != 0 {
				g.budget = p
			}
		}
	}
	if g.link == nil || g.accept == nil || g.tolerated == nil || g.budget == nil {
		unfollowed("jtp.Get no longer has (link *url.URL, accept string, tolerated []string, budget integer) parameters")
	}
	eachInstr(fn, func(_ *ssa.BasicBlock, _ int, in ssa.Instruction) {
		call, ok := in.(*ssa.Call)
		if !ok {
			return
		}
		if f := calleeObj(&call.Call); f != nil && f.Pkg() != nil && (f.Pkg().Path() == "crypto/tls" || f.Pkg().Path() == "net") && strings.HasPrefix(f.Name(), "Dial") {
			g.dial = call
			g.conn = resultValue(call, 0)
		}
		if call.Call.StaticCallee() == fn {
			g.recursive = append(g.recursive, call)
		}
		if sc := call.Call.StaticCallee(); sc != nil && sc.Name() == "parseStatusLine" {
			g.statusCall = call
			g.status = resultValue(call, 0)
		}
	})
	return g
}

// provablyNonNilErr: v is certainly a non-nil error at block b.
func provablyNonNilErr(v ssa.Value, b *ssa.BasicBlock, depth int) bool {
	if ok, _ := nonNilErrorArg(v, b, 0); ok {
		return true
	}
	if depth > 2 {
		return false
	}
	if call, ok := v.(*ssa.Call); ok && isLibCall(&call.Call, "errors", "", "Join") && len(call.Call.Args) == 1 {
		// errors.Join(xs...) is non-nil iff some x is non-nil
		if sl, ok := call.Call.Args[0].(*ssa.Slice); ok {
			if a, ok := sl.X.(*ssa.Alloc); ok {
				for _, r := range refs(a) {
					if ia, ok := r.(*ssa.IndexAddr); ok {
						for _, rr := range refs(ia) {
							if st, ok := rr.(*ssa.Store); ok && provablyNonNilErr(st.Val, b, depth+1) {
								return true
							}
						}
					}
				}
			}
		}
	}
	return false
}

// fieldLoadsOf: v is a load of field `name` of local struct alloc; returns the alloc.
func localFieldLoad(v ssa.Value) (*ssa.Alloc, string) {
	u, ok := v.(*ssa.UnOp)
	if !ok || u.Op != token.MUL {
		return nil, ""
	}
	fa, ok := u.X.(*ssa.FieldAddr)
	if !ok {
		return nil, ""
	}
	a, ok := fa.X.(*ssa.Alloc)
	if !ok {
		return nil, ""
	}
	return a, fieldOf(fa).Name()
}

// fieldStores: the values stored into field `name` of local struct alloc a
// (directly, or by a whole-struct store of a tuple extract).
func fieldStores(a *ssa.Alloc, name string) []ssa.Value {
	var out []ssa.Value
	for _, r := range refs(a) {
		if fa, ok := r.(*ssa.FieldAddr); ok && fieldOf(fa).Name() == name {
			for _, rr := range refs(fa) {
				if st, ok := rr.(*ssa.Store); ok && st.Addr == ssa.Value(fa) {
					out = append(out, st.Val)
				}
			}
		}
	}
	return out
}

func wholeStores(a *ssa.Alloc) []ssa.Value {
	var out []ssa.Value
	for _, r := range refs(a) {
		if st, ok := r.(*ssa.Store); ok && st.Addr == ssa.Value(a) {
			out = append(out, st.Val)
		}
	}
	return out
}

func isCacheCall(c *ssa.CallCommon, method string) bool {
	f := calleeObj(c)
	if f == nil || f.Name() != method || f.Pkg() == nil || !strings.HasPrefix(f.Pkg().Path(), "github.com/hashicorp/golang-lru") {
		return false
	}
	return true
}

func c03R1(c *Ctx) {
	P := c.P
	g := analyseGet(P)
	fn := g.fn
	fname := FuncName(fn)
	ft := factsOf(fn)
	nSuccess := 0
	for _, b := range fn.Blocks {
		ret, ok := b.Instrs[len(b.Instrs)-1].(*ssa.Return)
		if !ok || !ft.Reachable(b) {
			continue
		}
		doc, src, err := ret.Results[0], ret.Results[1], ret.Results[2]
		pos := P.InstrPos(ret)
		switch {
		case isNilConst(doc) && isNilConst(src):
			c.check(provablyNonNilErr(err, b, 0), fname+"/return:error", pos, fname,
				"error return: no document, no source, provably non-nil error",
				"returns neither a document nor a provably non-nil error: callers would treat a nil map as a fetched document")
		case isNilConst(err):
			nSuccess++
			c03Success(c, g, ret)
		default:
			// forwarded triple: all three come from one call (recursive Get or cache.Get)
			kind, why := c03Forwarded(g, ret)
			c.check(kind != "", fname+"/return:forward", pos, fname,
				"forwards the complete (document, source, error) triple of "+kind,
				"return that is neither an error return, a success return nor a forwarded triple: "+why)
		}
	}
	c.check(nSuccess >= 1, fname+"/success-returns", P.Pos(fn.Pos()), fname, fmt.Sprintf("%d success return(s) analysed", nSuccess), "jtp.Get has no success return")
}

// c03Forwarded: the three results are the fields item/source/err of one local
// bundle that was filled from one call, or the three extracts of one call.
func c03Forwarded(g *getShape, ret *ssa.Return) (string, string) {
	var allocs [3]*ssa.Alloc
	names := [3]string{}
	for i, r := range ret.Results {
		allocs[i], names[i] = localFieldLoad(r)
	}
	if allocs[0] == nil || allocs[0] != allocs[1] || allocs[1] != allocs[2] {
		// plain locals: the three results of one recursive call, in order
		var call *ssa.Call
		okExtracts := true
		for i, r := range ret.Results {
			ex, ok := unwrapLoad(r).(*ssa.Extract)
			if !ok || ex.Index != i {
				okExtracts = false
				break
			}
			cl, ok := ex.Tuple.(*ssa.Call)
			if !ok || (call != nil && cl != call) {
				okExtracts = false
				break
			}
			call = cl
		}
		if okExtracts && call != nil && call.Call.StaticCallee() == g.fn {
			return "the recursive redirect call", ""
		}
		return "", "the three results are not fields of one local bundle"
	}
	a := allocs[0]
	want := [3]string{"item", "source", "err"}
	for i := range want {
		if names[i] != want[i] {
			return "", fmt.Sprintf("result #%d is field %s, expected %s", i, names[i], want[i])
		}
	}
	// a copy of another local bundle (a value receiver, a parameter object): look at the original
	for i := 0; i < 3; i++ {
		ws := wholeStores(a)
		if len(ws) != 1 {
			break
		}
		ld, ok := ws[0].(*ssa.UnOp)
		if !ok || ld.Op != token.MUL {
			break
		}
		src, ok := ld.X.(*ssa.Alloc)
		if !ok {
			break
		}
		a = src
	}
	// filled as a whole from cache.Get (under ok) …
	if ws := wholeStores(a); len(ws) == 1 {
		if ex, ok := ws[0].(*ssa.Extract); ok && ex.Index == 0 {
			if call, ok := ex.Tuple.(*ssa.Call); ok && isCacheCall(&call.Call, "Get") {
				okv := resultValue(call, 1)
				ft := factsOf(g.fn)
				if okv != nil && hasBoolFact(ft.At(ret.Block()), func(v ssa.Value) bool { return v == okv }, true) {
					return "a cache hit", ""
				}
				return "", "cache value returned without testing the ok result"
			}
		}
		return "", "bundle assigned from something other than cache.Get"
	}
	// … or field by field from one recursive call
	var call *ssa.Call
	for i, n := range want {
		sts := fieldStores(a, n)
		if len(sts) != 1 {
			return "", "field " + n + " of the forwarded bundle is assigned more than once or never"
		}
		ex, ok := sts[0].(*ssa.Extract)
		if !ok || ex.Index != i {
			return "", "field " + n + " is not result #" + fmt.Sprint(i) + " of a call"
		}
		cl, ok := ex.Tuple.(*ssa.Call)
		if !ok || (call != nil && cl != call) {
			return "", "fields come from different calls"
		}
		call = cl
	}
	if call == nil || call.Call.StaticCallee() != g.fn {
		return "", "the forwarded bundle does not come from the recursive jtp.Get call"
	}
	return "the recursive redirect call", ""
}

var statusWhitelist = map[string]bool{"200": true, "201": true, "202": true, "203": true}

func c03Success(c *Ctx, g *getShape, ret *ssa.Return) {
	P := c.P
	fn := g.fn
	fname := FuncName(fn)
	b := ret.Block()
	pos := P.InstrPos(ret)
	facts := factsOf(fn).At(b)
	// (i) https only
	linkPath := path(g.link)
	httpsOK := false
	for _, f := range facts {
		cmp, ok := f.Cmp()
		if !ok || cmp.Op != token.EQL {
			continue
		}
		for _, side := range [][2]ssa.Value{{cmp.X, cmp.Y}, {cmp.Y, cmp.X}} {
			if s, ok := constString(side[1]); ok && s == "https" && path(side[0]) == linkPath+".&Scheme.*" {
				httpsOK = true
			}
		}
	}
	c.check(httpsOK, fname+"/success:https", pos, fname, "dominated by link.Scheme == \"https\"", "a document can be returned without the scheme of the frame's own URL being tested for https")
	// (ii) dial
	c.check(g.dial != nil && dominatesInstr(g.dial, ret), fname+"/success:dial", pos, fname, "dominated by the TLS dial", "success return not dominated by a dial")
	// (iii) status line parsed and checked
	okStatus := false
	if g.statusCall != nil && dominatesInstr(g.statusCall, ret) {
		if e, _ := errorResult(g.statusCall); e != nil && knownNil(e, b) {
			okStatus = true
		}
	}
	c.check(okStatus, fname+"/success:status-parsed", pos, fname, "dominated by parseStatusLine with its error checked", "success return not dominated by a checked parseStatusLine")
	// the status line text comes from the connection's reader
	var reader ssa.Value
	if g.statusCall != nil {
		if rc := lineReadCall(g.statusCall.Call.Args[0]); rc != nil {
			{
				reader = unwrapLoad(rc.Call.Args[0])
				if e, _ := errorResult(rc); e == nil || !knownNil(e, b) {
					c.bad(fname+"/success:status-read", pos, fname, "the read of the status line is not error-checked before success")
				} else {
					c.ok(fname+"/success:status-read", pos, fname, "status line read from the connection's reader with its error checked")
				}
			}
		}
	}
	readerOK := false
	if reader != nil {
		if nr, ok := reader.(*ssa.Call); ok && isLibCall(&nr.Call, "bufio", "", "NewReader") {
			if mi, ok := nr.Call.Args[0].(*ssa.MakeInterface); ok && mi.X == g.conn {
				readerOK = true
			}
		}
	}
	c.check(readerOK, fname+"/success:reader", pos, fname, "the reader wraps this frame's connection", "the status line is not read from a bufio.Reader over this frame's connection")
	// (iv) status whitelist on every path
	if g.status != nil {
		paths, complete := enumeratePaths(fn, b, 5000)
		okAll := complete && len(paths) > 0
		var seen []string
		seenSet := map[string]bool{}
		why := ""
		for _, pf := range paths {
			eqs := stringEqFacts(pf.facts, g.status)
			if len(eqs) == 0 {
				okAll = false
				why = "a path reaches success without any equality test on the status"
			}
			for _, s := range eqs {
				if !statusWhitelist[s] {
					okAll = false
					why = "status " + s + " is accepted"
				}
				if !seenSet[s] {
					seenSet[s] = true
					seen = append(seen, s)
				}
			}
		}
		sort.Strings(seen)
		if !complete {
			why = "too many paths to enumerate"
		}
		c.check(okAll, fname+"/success:status-whitelist", pos, fname,
			fmt.Sprintf("on each of the %d paths to success the status equals one of %v", len(paths), seen),
			"status whitelist violated: "+why)
	}
	// (v) validateHeaders(buf, tolerated) checked
	var vh *ssa.Call
	eachInstr(fn, func(_ *ssa.BasicBlock, _ int, in ssa.Instruction) {
		if call, ok := in.(*ssa.Call); ok {
			if sc := call.Call.StaticCallee(); sc != nil && sc.Name() == "validateHeaders" && dominatesInstr(call, ret) {
				vh = call
			}
		}
	})
	okVH := false
	whyVH := "no validateHeaders call dominates the success return"
	if vh != nil {
		whyVH = ""
		e, _ := errorResult(vh)
		switch {
		case e == nil || !knownNil(e, b):
			whyVH = "the error of validateHeaders is not checked before success"
		case len(vh.Call.Args) != 2 || unwrapLoad(vh.Call.Args[1]) != ssa.Value(g.tolerated):
			whyVH = "validateHeaders is not given this request's own tolerated list"
		case vh.Call.Args[0] != reader:
			whyVH = "validateHeaders does not read from the same reader as the status line"
		case g.statusCall != nil && !dominatesInstr(g.statusCall, vh):
			whyVH = "headers are validated before the status line"
		default:
			okVH = true
		}
	}
	c.check(okVH, fname+"/success:headers", pos, fname, "dominated by a checked validateHeaders(reader, tolerated)", whyVH)
	// (vi) decode into the returned map, checked
	okDec := false
	whyDec := "no json Decode into the returned map dominates the success return"
	docAlloc := (*ssa.Alloc)(nil)
	if u, ok := ret.Results[0].(*ssa.UnOp); ok && u.Op == token.MUL {
		docAlloc, _ = u.X.(*ssa.Alloc)
	}
	eachInstr(fn, func(_ *ssa.BasicBlock, _ int, in ssa.Instruction) {
		call, ok := in.(*ssa.Call)
		if !ok || !isLibCall(&call.Call, "encoding/json", "Decoder", "Decode") || !dominatesInstr(call, ret) {
			return
		}
		mi, ok := call.Call.Args[1].(*ssa.MakeInterface)
		if !ok || docAlloc == nil || unwrapLoad(mi.X) != ssa.Value(docAlloc) {
			whyDec = "the decoded value is not the map that is returned"
			return
		}
		if _, isMap := deref(docAlloc.Type()).Underlying().(*types.Map); !isMap {
			whyDec = "the decode target is not a map (JSON object)"
			return
		}
		e, _ := errorResult(call)
		if e == nil || !knownNil(e, b) {
			whyDec = "the decode error is not checked before success: a truncated body would be accepted"
			return
		}
		nd, ok := call.Call.Args[0].(*ssa.Call)
		if !ok || !isLibCall(&nd.Call, "encoding/json", "", "NewDecoder") {
			whyDec = "decoder of unknown origin"
			return
		}
		if mi2, ok := nd.Call.Args[0].(*ssa.MakeInterface); !ok || mi2.X != reader {
			whyDec = "the body is not decoded from the same reader as the headers"
			return
		}
		if vh != nil && !dominatesInstr(vh, call) {
			whyDec = "the body is decoded before the headers are validated"
			return
		}
		if len(storesToAlloc(docAlloc)) != 0 {
			whyDec = "the returned map is also assigned elsewhere"
			return
		}
		okDec = true
	})
	c.check(okDec, fname+"/success:decode", pos, fname, "dominated by a checked json Decode of the validated stream into the returned map", whyDec)
	// (vii) a JSON object, not null: encoding/json decodes the body `null` into a
	// nil map without an error, so the success return must know the map is not nil
	okObj := false
	if docAlloc != nil {
		for _, f := range facts {
			cmp, ok := f.Cmp()
			if !ok {
				continue
			}
			for _, side := range [][2]ssa.Value{{cmp.X, cmp.Y}, {cmp.Y, cmp.X}} {
				ld, isLd := side[0].(*ssa.UnOp)
				if !isLd || ld.Op != token.MUL || ld.X != ssa.Value(docAlloc) {
					// len(map) > 0 / != 0 also excludes nil
					if call, isCall := side[0].(*ssa.Call); isCall {
						if bi, isB := call.Call.Value.(*ssa.Builtin); isB && bi.Name() == "len" {
							if l2, ok2 := call.Call.Args[0].(*ssa.UnOp); ok2 && l2.Op == token.MUL && l2.X == ssa.Value(docAlloc) {
								if k, isC := constInt(side[1]); isC && k == 0 && ((cmp.Op == token.NEQ) || (cmp.Op == token.GTR && side[0] == cmp.X) || (cmp.Op == token.LSS && side[0] == cmp.Y)) {
									okObj = true
								}
							}
						}
					}
					continue
				}
				if isNilConst(side[1]) && cmp.Op == token.NEQ {
					okObj = true
				}
			}
		}
	}
	c.check(okObj, fname+"/success:object", pos, fname, "dominated by a test that the decoded map is not nil (the body `null` decodes to a nil map without an error)", "a document can be returned without the decoded map being tested against nil: encoding/json decodes the body `null` into a nil map and reports no error, so a non-object body yields a (nil) document instead of an error")
	// source is the frame's own URL
	c.check(unwrapLoad(ret.Results[1]) == ssa.Value(g.link), fname+"/success:source", pos, fname, "the reported source is the frame's own URL", "the source returned with the document is not the URL this frame requested")
}

func c03R2(c *Ctx) {
	P := c.P
	g := analyseGet(P)
	fname := FuncName(g.fn)
	b, ok := g.budget.Type().Underlying().(*types.Basic)
	c.check(ok && b.Info()&types.IsUnsigned != 0, fname+"/budget-unsigned", P.Pos(g.fn.Pos()), fname, "the redirect budget is unsigned", "the redirect budget is a signed integer: budget-1 below zero keeps redirecting")
	c.check(len(g.recursive) == 1, fname+"/one-recursion", P.Pos(g.fn.Pos()), fname, "exactly one recursive call", fmt.Sprintf("%d recursive calls of jtp.Get", len(g.recursive)))
	ft := factsOf(g.fn)
	for _, rc := range g.recursive {
		pos := P.InstrPos(rc)
		arg := rc.Call.Args[3]
		dec := false
		if bo, ok := arg.(*ssa.BinOp); ok && bo.Op == token.SUB && unwrapLoad(bo.X) == ssa.Value(g.budget) {
			if k, ok := constInt(bo.Y); ok && k >= 1 {
				dec = true
			}
		}
		c.check(dec, fname+"/budget-decreases", pos, fname, "the recursive call passes maxRedirects minus a positive constant", "the recursive call does not pass a strictly smaller budget: redirect chains and cycles are unbounded")
		nonZero := false
		for _, f := range ft.At(rc.Block()) {
			cmp, ok := f.Cmp()
			if !ok {
				continue
			}
			if k, isC := constInt(cmp.Y); isC && unwrapLoad(cmp.X) == ssa.Value(g.budget) {
				if (cmp.Op == token.NEQ && k == 0) || (cmp.Op == token.GTR && k >= 0) || (cmp.Op == token.GEQ && k >= 1) {
					nonZero = true
				}
			}
		}
		c.check(nonZero, fname+"/budget-guard", pos, fname, "dominated by maxRedirects != 0", "the recursive call is not guarded by a test that the budget is not exhausted (unsigned underflow)")
		// other arguments forwarded unchanged
		c.check(unwrapLoad(rc.Call.Args[1]) == ssa.Value(g.accept) && unwrapLoad(rc.Call.Args[2]) == ssa.Value(g.tolerated), fname+"/forwarded-args", pos, fname,
			"accept and tolerated are forwarded unchanged to the next hop", "the next hop is requested with a different Accept header or tolerated list")
	}
	// one dial, one write, neither in a loop
	nDial, nWrite := 0, 0
	eachInstr(g.fn, func(_ *ssa.BasicBlock, _ int, in ssa.Instruction) {
		call, ok := in.(*ssa.Call)
		if !ok {
			return
		}
		f := calleeObj(&call.Call)
		if f == nil || f.Pkg() == nil {
			return
		}
		if (f.Pkg().Path() == "crypto/tls" || f.Pkg().Path() == "net") && strings.HasPrefix(f.Name(), "Dial") {
			nDial++
			c.check(!inCycle(call.Block()), fname+"/dial-not-in-loop", P.InstrPos(in), fname, "the dial is not inside a loop", "the dial is inside a loop: more than one request per hop")
		}
		if f.Name() == "Write" && ((len(call.Call.Args) > 0 && call.Call.Args[0] == g.conn) || (call.Call.IsInvoke() && stripIface(unwrapLoad(call.Call.Value)) == g.conn)) {
			nWrite++
			c.check(!inCycle(call.Block()), fname+"/write-not-in-loop", P.InstrPos(in), fname, "the request is written once", "the request write is inside a loop")
		}
	})
	c.check(nDial == 1 && nWrite == 1, fname+"/one-request", P.Pos(g.fn.Pos()), fname, "one dial and one request write per frame", fmt.Sprintf("%d dials and %d request writes per frame", nDial, nWrite))
	// external callers pass a constant budget
	for _, e := range P.Callers(g.fn) {
		if e.Site == nil || e.Caller.Func == g.fn {
			continue
		}
		arg := e.Site.Common().Args[3]
		k, isConst := constInt(arg)
		c.check(isConst && k >= 0 && k <= 1000, FuncName(e.Caller.Func)+"/budget-constant", P.InstrPos(e.Site), FuncName(e.Caller.Func),
			fmt.Sprintf("constant redirect budget %d", k), "the redirect budget passed to jtp.Get is not a small compile-time constant")
	}
}

func c03R3(c *Ctx) {
	P := c.P
	g := analyseGet(P)
	fname := FuncName(g.fn)
	ft := factsOf(g.fn)
	findLoc := P.Func("servitor/jtp", "findLocation")
	parseLoc := P.Func("servitor/jtp", "parseLocation")
	for _, rc := range g.recursive {
		pos := P.InstrPos(rc)
		// target = result #0 of findLocation(reader, link) with error checked
		okT := false
		why := "the redirect target is not the result of findLocation on this frame's reader and URL"
		if ex, ok := rc.Call.Args[0].(*ssa.Extract); ok && ex.Index == 0 {
			if fl, ok := ex.Tuple.(*ssa.Call); ok && fl.Call.StaticCallee() == findLoc {
				e, _ := errorResult(fl)
				switch {
				case len(fl.Call.Args) != 2 || unwrapLoad(fl.Call.Args[1]) != ssa.Value(g.link):
					why = "Location is not resolved against the URL that issued the redirect"
				case e == nil || !knownNil(e, rc.Block()):
					why = "the error of findLocation (missing or malformed Location) is not checked"
				default:
					okT = true
				}
			}
		}
		c.check(okT, fname+"/redirect-target", pos, fname, "next hop = findLocation(reader, link), error checked", why)
		// entered only for 3xx
		is3 := hasBoolFact(ft.At(rc.Block()), func(v ssa.Value) bool {
			call, ok := v.(*ssa.Call)
			if !ok || !isLibCall(&call.Call, "strings", "", "HasPrefix") {
				return false
			}
			s, isC := constString(call.Call.Args[1])
			return isC && s == "3" && stripStringConv(call.Call.Args[0]) == stripStringConv(g.status)
		}, true)
		c.check(is3, fname+"/redirect-only-3xx", pos, fname, "the redirect is followed only when the status starts with 3", "a redirect is followed for a status that is not 3xx")
	}
	// findLocation: success value comes from parseLocation(line, baseLink) under isLocationLine && err == nil
	flName := FuncName(findLoc)
	base := findLoc.Params[len(findLoc.Params)-1]
	for _, b := range findLoc.Blocks {
		ret, ok := b.Instrs[len(b.Instrs)-1].(*ssa.Return)
		if !ok {
			continue
		}
		if isNilConst(ret.Results[1]) {
			okR := false
			why := "a Location is returned that does not come from parseLocation"
			if ex, ok := ret.Results[0].(*ssa.Extract); ok && ex.Index == 0 {
				if pl, ok := ex.Tuple.(*ssa.Call); ok && pl.Call.StaticCallee() == parseLoc {
					e, _ := errorResult(pl)
					isLoc := resultValue(pl, 1)
					switch {
					case unwrapLoad(pl.Call.Args[1]) != ssa.Value(base):
						why = "parseLocation is not given the issuing URL as base"
					case e == nil || !knownNil(e, b):
						why = "parse error of the Location value is not checked"
					case isLoc == nil || !hasBoolFact(factsOf(findLoc).At(b), func(v ssa.Value) bool { return v == isLoc }, true):
						why = "a non-Location header line can be returned as the Location"
					default:
						okR = true
					}
				}
			}
			c.check(okR, flName+"/return:location", P.InstrPos(ret), flName, "returns parseLocation(line, base) under isLocationLine && err == nil", why)
		} else {
			c.check(isNilConst(ret.Results[0]) && provablyNonNilErr(ret.Results[1], b, 0), flName+"/return:error", P.InstrPos(ret), flName,
				"error return without a URL", "returns a URL together with an error, or a possibly-nil error without a URL (missing Location must be an error)")
		}
	}
	// parseLocation: the URL returned is base.ResolveReference(parsed value)
	plName := FuncName(parseLoc)
	pbase := parseLoc.Params[len(parseLoc.Params)-1]
	for _, b := range parseLoc.Blocks {
		ret, ok := b.Instrs[len(b.Instrs)-1].(*ssa.Return)
		if !ok || isNilConst(ret.Results[0]) {
			continue
		}
		okR := false
		why := "the returned URL is not base.ResolveReference(...)"
		if call, ok := ret.Results[0].(*ssa.Call); ok && isLibCall(&call.Call, "net/url", "URL", "ResolveReference") {
			switch {
			case unwrapLoad(call.Call.Args[0]) != ssa.Value(pbase):
				why = "the Location is not resolved relative to the issuing URL"
			default:
				if ex, ok := call.Call.Args[1].(*ssa.Extract); ok {
					if up, ok := ex.Tuple.(*ssa.Call); ok && isLibCall(&up.Call, "net/url", "", "Parse") {
						if e, _ := errorResult(up); e != nil && knownNil(e, b) {
							okR = true
						} else {
							why = "url.Parse error of the Location value is not checked"
						}
					}
				}
			}
		}
		c.check(okR, plName+"/return:resolved", P.InstrPos(ret), plName, "base.ResolveReference(url.Parse(value)) with the parse error checked", why)
	}
}

func c03R4(c *Ctx) {
	P := c.P
	vh := P.Func("servitor/jtp", "validateHeaders")
	name := FuncName(vh)
	ft := factsOf(vh)
	var tolerated *ssa.Parameter
	for _, p := range vh.Params {
		if _, ok := p.Type().Underlying().(*types.Slice); ok {
			tolerated = p
		}
	}
	if tolerated == nil {
		unfollowed("validateHeaders has no tolerated-list parameter")
	}
	// Matches calls
	var matches []*ssa.Call
	var pct []*ssa.Call
	eachInstr(vh, func(_ *ssa.BasicBlock, _ int, in ssa.Instruction) {
		if call, ok := in.(*ssa.Call); ok {
			if sc := call.Call.StaticCallee(); sc != nil {
				if sc.Name() == "Matches" {
					matches = append(matches, call)
				}
				if sc.Name() == "parseContentType" {
					pct = append(pct, call)
				}
			}
		}
	})
	c.check(len(matches) >= 1 && len(pct) >= 1, name+"/anchors", P.Pos(vh.Pos()), name, "parseContentType and MediaType.Matches are used", "validateHeaders no longer parses Content-Type lines or no longer matches them against the tolerated list")
	isMatchOK := func(v ssa.Value) bool {
		call, ok := v.(*ssa.Call)
		if !ok {
			return false
		}
		for _, m := range matches {
			if m != call {
				continue
			}
			if len(m.Call.Args) != 2 || unwrapLoad(m.Call.Args[1]) != ssa.Value(tolerated) {
				return false
			}
			ex, ok := m.Call.Args[0].(*ssa.Extract)
			if !ok || ex.Index != 0 {
				return false
			}
			pc, ok := ex.Tuple.(*ssa.Call)
			if !ok || pc.Call.StaticCallee() == nil || pc.Call.StaticCallee().Name() != "parseContentType" {
				return false
			}
			e, _ := errorResult(pc)
			return e != nil && knownNil(e, m.Block())
		}
		return false
	}
	for _, b := range vh.Blocks {
		ret, ok := b.Instrs[len(b.Instrs)-1].(*ssa.Return)
		if !ok {
			continue
		}
		if !isNilConst(ret.Results[0]) {
			c.check(provablyNonNilErr(ret.Results[0], b, 0), name+"/return:error", P.InstrPos(ret), name, "returns a provably non-nil error", "returns an error value that may be nil: headers would be accepted on a failure path")
			continue
		}
		// nil return: under flag == true, flag a phi fed by `true` only after a successful match
		okNil := false
		why := "headers are accepted on a path where no Content-Type header was matched against the tolerated list"
		for _, f := range ft.At(b) {
			if !f.Truth {
				continue
			}
			ph, ok := f.Cond.(*ssa.Phi)
			if !ok {
				continue
			}
			good := true
			sawTrue := false
			for k, ed := range ph.Edges {
				if unwrapLoad(ed) == ssa.Value(ph) {
					continue
				}
				cst, ok := ed.(*ssa.Const)
				if !ok || cst.Value == nil {
					good = false
					why = "the validated flag is computed from something other than constants"
					continue
				}
				if cst.Value.String() == "true" {
					sawTrue = true
					pred := ph.Block().Preds[k]
					if !hasBoolFact(ft.At(pred), isMatchOK, true) {
						good = false
						why = "the validated flag is set on a path where mediaType.Matches(tolerated) is not known to hold for a parsed Content-Type header"
					}
				}
			}
			if good && sawTrue {
				okNil = true
			}
		}
		c.check(okNil, name+"/return:accepted", P.InstrPos(ret), name, "nil only under the validated flag, which is set only after a Content-Type header matched the request's tolerated list", why)
	}
	// a Content-Type header that does not match must end in an error
	for _, m := range matches {
		okRej := false
		for _, r := range refs(m) {
			if iff, ok := r.(*ssa.If); ok {
				okRej = onlyErrorReturnsFrom(iff.Block().Succs[1])
			}
			if u, ok := r.(*ssa.UnOp); ok && u.Op == token.NOT {
				for _, rr := range refs(u) {
					if iff, ok := rr.(*ssa.If); ok {
						okRej = onlyErrorReturnsFrom(iff.Block().Succs[0])
					}
				}
			}
		}
		c.check(okRej, name+"/mismatch-rejected", P.InstrPos(m), name, "a Content-Type header outside the tolerated list leads to an error return only", "a Content-Type header that is not tolerated does not abort validation")
	}
	// a Content-Type line is never skipped: from parseContentType, reaching the
	// loop head or a return without passing Matches requires isContentTypeLine == false
	for _, pc := range pct {
		isCT := resultValue(pc, 1)
		skipOK := true
		why := ""
		var matchBlocks = map[*ssa.BasicBlock]bool{}
		for _, m := range matches {
			matchBlocks[m.Block()] = true
		}
		var walk func(b *ssa.BasicBlock, facts []Fact, seen map[*ssa.BasicBlock]bool)
		walk = func(b *ssa.BasicBlock, facts []Fact, seen map[*ssa.BasicBlock]bool) {
			if matchBlocks[b] {
				return
			}
			leaving := false
			if b != pc.Block() && b.Dominates(pc.Block()) {
				leaving = true // back at (or above) the loop head
			}
			if ret, ok := b.Instrs[len(b.Instrs)-1].(*ssa.Return); ok {
				if !isNilConst(ret.Results[0]) {
					return
				}
				leaving = true
			}
			if leaving {
				if isCT == nil || !hasBoolFact(facts, func(v ssa.Value) bool { return v == isCT }, false) {
					skipOK = false
					why = "a line recognised as Content-Type can be skipped without being matched (path ending at " + P.InstrPos(b.Instrs[0]) + ")"
				}
				return
			}
			if seen[b] {
				return
			}
			seen[b] = true
			iff, isIf := b.Instrs[len(b.Instrs)-1].(*ssa.If)
			for i, s := range b.Succs {
				nf := facts
				if isIf {
					m := map[Fact]bool{}
					addCondFacts(m, iff.Cond, i == 0)
					nf = append(append([]Fact{}, facts...), keysOf(m)...)
				}
				walk(s, nf, seen)
			}
			seen[b] = false
		}
		walk(pc.Block(), nil, map[*ssa.BasicBlock]bool{})
		c.check(skipOK, name+"/no-skip", P.InstrPos(pc), name, "only lines that are not Content-Type headers bypass the match", why)
	}
	// MediaType.Matches: true only on equality of the essence with a list element
	mm := P.Method("servitor/mime", "MediaType", "Matches")
	mname := FuncName(mm)
	for _, b := range mm.Blocks {
		ret, ok := b.Instrs[len(b.Instrs)-1].(*ssa.Return)
		if !ok {
			continue
		}
		cst, isC := ret.Results[0].(*ssa.Const)
		if isC && cst.Value != nil && cst.Value.String() == "false" {
			c.ok(mname+"/return:false", P.InstrPos(ret), mname, "no match")
			continue
		}
		okEq := false
		for _, f := range factsOf(mm).At(b) {
			cmp, ok := f.Cmp()
			if !ok || cmp.Op != token.EQL {
				continue
			}
			px, py := path(cmp.X), path(cmp.Y)
			if strings.HasSuffix(px, ".&Essence.*") || strings.HasSuffix(py, ".&Essence.*") {
				okEq = true
			}
		}
		// or the library's membership test of the essence in the list
		if call, isCall := unwrapLoad(ret.Results[0]).(*ssa.Call); isCall {
			if f := calleeObj(&call.Call); f != nil && f.Pkg() != nil && (f.Pkg().Path() == "slices" || f.Pkg().Path() == "golang.org/x/exp/slices") && f.Name() == "Contains" && len(call.Call.Args) == 2 {
				if unwrapLoad(call.Call.Args[0]) == ssa.Value(mm.Params[1]) && strings.HasSuffix(path(call.Call.Args[1]), ".&Essence.*") {
					okEq = true
				}
			}
		}
		c.check(okEq, mname+"/return:true", P.InstrPos(ret), mname, "true only under essence == element of the list", "MediaType.Matches can report a match without an equality test of the essence against a list element")
	}
}

func keysOf(m map[Fact]bool) []Fact {
	var out []Fact
	for f := range m {
		out = append(out, f)
	}
	return out
}

// onlyErrorReturnsFrom: every return reachable from b (staying in the region
// dominated by b) returns a non-nil error as its last result; no fall-through.
func onlyErrorReturnsFrom(b *ssa.BasicBlock) bool {
	ok := true
	any := false
	seen := map[*ssa.BasicBlock]bool{}
	var walk func(x *ssa.BasicBlock)
	walk = func(x *ssa.BasicBlock) {
		if seen[x] {
			return
		}
		seen[x] = true
		if !b.Dominates(x) {
			ok = false
			return
		}
		if ret, isRet := x.Instrs[len(x.Instrs)-1].(*ssa.Return); isRet {
			any = true
			if len(ret.Results) == 0 {
				ok = false
				return
			}
			last := ret.Results[len(ret.Results)-1]
			if !provablyNonNilErr(last, x, 0) {
				ok = false
			}
			return
		}
		for _, s := range x.Succs {
			walk(s)
		}
	}
	walk(b)
	return ok && any
}

// regexpPattern finds the constant pattern a package-level *regexp.Regexp is compiled from.
func regexpPattern(P *Program, pkg, name string) (string, token.Pos) {
	pat := ""
	var pos token.Pos
	var g *ssa.Global
	if sp := P.ssaPkg(pkg); sp != nil {
		g, _ = sp.Members[name].(*ssa.Global)
	}
	if g == nil {
		return "", token.NoPos // the recogniser is gone: the caller reports that it cannot establish its shape
	}
	for _, fn := range P.FuncsIn(pkg) {
		eachInstr(fn, func(_ *ssa.BasicBlock, _ int, in ssa.Instruction) {
			st, ok := in.(*ssa.Store)
			if !ok || st.Addr != ssa.Value(g) {
				return
			}
			call, ok := st.Val.(*ssa.Call)
			if !ok {
				return
			}
			pos = call.Pos()
			if isLibCall(&call.Call, "regexp", "", "MustCompile") || isLibCall(&call.Call, "regexp", "", "Compile") {
				if s, ok := evalConstString(call.Call.Args[0], nil, 0); ok {
					pat = s
				}
				return
			}
			// a helper that compiles a pattern assembled from its (constant) arguments
			if sc := call.Call.StaticCallee(); sc != nil && P.IsServitorFunc(sc) {
				env := map[*ssa.Parameter]ssa.Value{}
				for i, p := range sc.Params {
					if i < len(call.Call.Args) {
						env[p] = call.Call.Args[i]
					}
				}
				for _, b := range sc.Blocks {
					ret, ok := b.Instrs[len(b.Instrs)-1].(*ssa.Return)
					if !ok || len(ret.Results) == 0 {
						continue
					}
					if mc, ok := ret.Results[0].(*ssa.Call); ok && (isLibCall(&mc.Call, "regexp", "", "MustCompile")) {
						if s, ok := evalConstString(mc.Call.Args[0], env, 0); ok {
							pat = s
						}
					}
				}
			}
		})
	}
	return pat, pos
}

// evalConstString folds a string expression made of constants, concatenation,
// parameters bound to constants at the (single) call site, and
// regexp.QuoteMeta / strings.ToLower of such.
func evalConstString(v ssa.Value, env map[*ssa.Parameter]ssa.Value, d int) (string, bool) {
	if d > 12 {
		return "", false
	}
	if s, ok := constString(v); ok {
		return s, true
	}
	switch x := v.(type) {
	case *ssa.BinOp:
		if x.Op == token.ADD {
			a, ok1 := evalConstString(x.X, env, d+1)
			b, ok2 := evalConstString(x.Y, env, d+1)
			return a + b, ok1 && ok2
		}
	case *ssa.Parameter:
		if env != nil {
			if a, ok := env[x]; ok {
				return evalConstString(a, nil, d+1)
			}
		}
	case *ssa.Call:
		if isLibCall(&x.Call, "regexp", "", "QuoteMeta") {
			if s, ok := evalConstString(x.Call.Args[0], env, d+1); ok {
				return regexpQuoteMeta(s), true
			}
		}
		if isLibCall(&x.Call, "strings", "", "ToLower") {
			if s, ok := evalConstString(x.Call.Args[0], env, d+1); ok {
				return strings.ToLower(s), true
			}
		}
	}
	return "", false
}

func regexpQuoteMeta(s string) string {
	var b strings.Builder
	for _, r := range s {
		if strings.ContainsRune(`\.+*?()|[]{}^$`, r) {
			b.WriteByte('\\')
		}
		b.WriteRune(r)
	}
	return b.String()
}

func c03R5(c *Ctx) {
	P := c.P
	pat, pos := regexpPattern(P, "servitor/jtp", "statusLineRegexp")
	if pat == "" {
		c.bad("servitor/jtp.statusLineRegexp/pattern", P.Pos(pos), "servitor/jtp.statusLineRegexp", "the status line is no longer recognised by a package-level regular expression with a constant pattern: that it is anchored and captures exactly three digits cannot be established")
		return
	}
	re, err := syntax.Parse(pat, syntax.Perl)
	if err != nil {
		broken("statusLineRegexp pattern does not parse: %v", err)
	}
	re = re.Simplify()
	where := "servitor/jtp.statusLineRegexp"
	subs := []*syntax.Regexp{re}
	if re.Op == syntax.OpConcat {
		subs = re.Sub
	}
	c.check(len(subs) > 0 && subs[0].Op == syntax.OpBeginText, where+"/anchored-start", P.Pos(pos), where, "anchored at the start of the line", "the status line pattern is not anchored at the start: the status could be taken from the middle of a line")
	c.check(len(subs) > 0 && subs[len(subs)-1].Op == syntax.OpEndText, where+"/anchored-end", P.Pos(pos), where, "anchored at the end", "the status line pattern is not anchored at the end")
	// prefix literal HTTP/1.
	lit := ""
	for _, s := range subs {
		if s.Op == syntax.OpLiteral {
			lit = string(s.Rune)
			break
		}
		if s.Op == syntax.OpCapture {
			break
		}
	}
	c.check(strings.HasPrefix(lit, "HTTP/1."), where+"/protocol-literal", P.Pos(pos), where, "begins with the literal HTTP/1.", "the status line pattern does not demand the HTTP/1. prefix")
	// capture 1 = exactly three digits
	okCap := false
	ncap := re.MaxCap()
	var walk func(r *syntax.Regexp)
	walk = func(r *syntax.Regexp) {
		if r.Op == syntax.OpCapture && r.Cap == 1 {
			s := r.Sub[0]
			digits := func(x *syntax.Regexp) bool {
				return x.Op == syntax.OpCharClass && len(x.Rune) == 2 && x.Rune[0] == '0' && x.Rune[1] == '9'
			}
			if s.Op == syntax.OpRepeat && s.Min == 3 && s.Max == 3 && digits(s.Sub[0]) {
				okCap = true
			}
			if s.Op == syntax.OpConcat && len(s.Sub) == 3 && digits(s.Sub[0]) && digits(s.Sub[1]) && digits(s.Sub[2]) {
				okCap = true
			}
		}
		for _, s := range r.Sub {
			walk(s)
		}
	}
	walk(re)
	c.check(okCap && ncap == 1, where+"/capture", P.Pos(pos), where, "one capture: exactly three ASCII digits", "the status capture is not exactly three ASCII digits (or there are other captures)")
	// the header recognisers: a whole line, the header's own name at the very
	// start (case-insensitive), a colon, the trimmed value as the only capture
	for hdr, gname := range map[string]string{"content-type": "contentTypeRegexp", "location": "locationRegexp"} {
		hp, hpos := regexpPattern(P, "servitor/jtp", gname)
		hwhere := "servitor/jtp." + gname
		if hp == "" {
			c.bad(hwhere+"/pattern", P.Pos(hpos), hwhere, "the pattern recognising the "+hdr+" header is not a compile-time constant (or constant-foldable): its shape cannot be checked")
			continue
		}
		hre, err := syntax.Parse(hp, syntax.Perl)
		if err != nil {
			c.bad(hwhere+"/pattern", P.Pos(hpos), hwhere, "the "+hdr+" pattern does not parse")
			continue
		}
		hre = hre.Simplify()
		hs := []*syntax.Regexp{hre}
		if hre.Op == syntax.OpConcat {
			hs = hre.Sub
		}
		anchoredStart := len(hs) > 0 && hs[0].Op == syntax.OpBeginText
		anchoredEnd := len(hs) > 0 && hs[len(hs)-1].Op == syntax.OpEndText
		// after ^: the literal name (fold-case), then ':'
		nameOK := false
		if anchoredStart && len(hs) > 1 {
			lit := ""
			fold := true
			for _, part := range hs[1:] {
				if part.Op != syntax.OpLiteral {
					break
				}
				lit += string(part.Rune)
				if part.Flags&syntax.FoldCase == 0 && strings.ToLower(string(part.Rune)) != strings.ToUpper(string(part.Rune)) {
					fold = false
				}
			}
			nameOK = strings.EqualFold(lit, hdr+":") && fold
		}
		c.check(anchoredStart && anchoredEnd && nameOK && hre.MaxCap() == 1, hwhere+"/shape", P.Pos(hpos), hwhere,
			"^(?i:"+hdr+"): … (value) … $ — the header name is matched at the start of the line only",
			fmt.Sprintf("the %s recogniser %q is not anchored to the start/end of the line with the literal name %q followed by a colon: a header whose name merely ends in %q (Content-Location, X-Original-Content-Type) is taken for it", hdr, hp, hdr, hdr))
	}
	// parseStatusLine returns matches[1] under len(matches) == 2
	ps := P.Func("servitor/jtp", "parseStatusLine")
	psName := FuncName(ps)
	for _, b := range ps.Blocks {
		ret, ok := b.Instrs[len(b.Instrs)-1].(*ssa.Return)
		if !ok {
			continue
		}
		if !isNilConst(ret.Results[1]) {
			c.check(provablyNonNilErr(ret.Results[1], b, 0), psName+"/return:error", P.InstrPos(ret), psName, "error return", "possibly-nil error returned for an unparseable status line")
			continue
		}
		okR := false
		why := "the status returned is not capture 1 of statusLineRegexp applied to the line"
		if u, ok := stripStringConv(ret.Results[0]).(*ssa.UnOp); ok && u.Op == token.MUL {
			if ia, ok := u.X.(*ssa.IndexAddr); ok {
				if k, isC := constInt(ia.Index); isC && k == 1 {
					if call, ok := ia.X.(*ssa.Call); ok && isLibCall(&call.Call, "regexp", "Regexp", "FindStringSubmatch") {
						recv := call.Call.Args[0]
						fromGlobal := false
						if lu, ok := recv.(*ssa.UnOp); ok {
							if gl, ok := lu.X.(*ssa.Global); ok && gl.Name() == "statusLineRegexp" {
								fromGlobal = true
							}
						}
						lenOK := false
						for _, f := range factsOf(ps).At(b) {
							cmp, ok := f.Cmp()
							if !ok || cmp.Op != token.EQL {
								continue
							}
							if k, isC := constInt(cmp.Y); isC && k == int64(ncap+1) {
								if lc, ok := cmp.X.(*ssa.Call); ok {
									if bi, ok := lc.Call.Value.(*ssa.Builtin); ok && bi.Name() == "len" && unwrapLoad(lc.Call.Args[0]) == ssa.Value(call) {
										lenOK = true
									}
								}
							}
						}
						switch {
						case !fromGlobal:
							why = "matched with a different pattern"
						case unwrapLoad(call.Call.Args[1]) != ssa.Value(ps.Params[0]):
							why = "the pattern is not applied to the status line passed in"
						case !lenOK:
							why = "the match is indexed without the len(matches) == captures+1 guard"
						default:
							okR = true
						}
					}
				}
			}
		}
		c.check(okR, psName+"/return:status", P.InstrPos(ret), psName, "returns capture 1 under len(matches) == 2", why)
	}
}

// variadicOperands: the values stored into the implicit []any of a variadic call.
func variadicOperands(call *ssa.Call) []ssa.Value {
	var out []ssa.Value
	if len(call.Call.Args) == 0 {
		return nil
	}
	sl, ok := call.Call.Args[len(call.Call.Args)-1].(*ssa.Slice)
	if !ok {
		return nil
	}
	arr, ok := sl.X.(*ssa.Alloc)
	if !ok {
		return nil
	}
	for _, r := range refs(arr) {
		if ia, ok := r.(*ssa.IndexAddr); ok {
			for _, rr := range refs(ia) {
				if st, ok := rr.(*ssa.Store); ok && st.Addr == ssa.Value(ia) {
					out = append(out, st.Val)
				}
			}
		}
	}
	return out
}

func c03R6(c *Ctx) {
	P := c.P
	g := analyseGet(P)
	fname := FuncName(g.fn)
	f := flowAll(P)
	var keyed []*ssa.Call
	eachInstr(g.fn, func(_ *ssa.BasicBlock, _ int, in ssa.Instruction) {
		if call, ok := in.(*ssa.Call); ok && (isCacheCall(&call.Call, "Get") || isCacheCall(&call.Call, "Add") || isCacheCall(&call.Call, "Peek") || isCacheCall(&call.Call, "ContainsOrAdd")) {
			keyed = append(keyed, call)
		}
	})
	if len(keyed) < 2 {
		c.note(fname+"/cache", P.Pos(g.fn.Pos()), fname, "jtp.Get does not use the cache")
	}
	// (a) every request-shaping parameter is part of every key, or is the same
	// constant at every external call site
	for _, p := range []*ssa.Parameter{g.link, g.accept, g.tolerated} {
		invariant := callSiteInvariant(P, g.fn, p)
		for _, call := range keyed {
			key := call.Call.Args[1]
			// intra-procedural dependence: stop at the frame's own parameters
			_, visited := f.Backward(f.val(key), func(n int) bool {
				k := f.keys[n]
				if k.kind != nValue {
					return false
				}
				q, isParam := k.v.(*ssa.Parameter)
				return isParam && q.Parent() == g.fn
			})
			inKey := visited[f.val(p)]
			construct := fname + "/cache-key:" + p.Name()
			c.check(inKey || invariant, construct, P.InstrPos(call), fname,
				"parameter "+p.Name()+" is part of the cache key (or identical at every call site)",
				"the cache key does not depend on parameter "+p.Name()+", which differs between callers: an entry stored for one kind of request is served to another that would not have accepted it")
		}
	}
	// (a') the key contains the complete serialisation of the URL: a key made of
	// components (host, path, …) maps URLs that differ in scheme or fragment to
	// one entry, and a hit then skips the https test or reports another source
	for _, call := range keyed {
		full := false
		var leaves func(v ssa.Value, d int)
		leaves = func(v ssa.Value, d int) {
			v = unwrapLoad(v)
			if d > 12 {
				return
			}
			if bo, ok := v.(*ssa.BinOp); ok && bo.Op == token.ADD {
				leaves(bo.X, d+1)
				leaves(bo.Y, d+1)
				return
			}
			if sc, ok := v.(*ssa.Call); ok && isLibCall(&sc.Call, "net/url", "URL", "String") && unwrapLoad(sc.Call.Args[0]) == ssa.Value(g.link) {
				full = true
			}
			// fmt.Sprint*/Sprintf with the URL (a Stringer) or its String() as operand
			if sc, ok := v.(*ssa.Call); ok {
				if f := calleeObj(&sc.Call); f != nil && f.Pkg() != nil && f.Pkg().Path() == "fmt" && strings.HasPrefix(f.Name(), "Sprint") {
					for _, a := range variadicOperands(sc) {
						if mi, ok := a.(*ssa.MakeInterface); ok {
							if unwrapLoad(mi.X) == ssa.Value(g.link) {
								full = true
							}
							leaves(mi.X, d+1)
						}
					}
				}
			}
		}
		leaves(call.Call.Args[1], 0)
		c.check(full, fname+"/cache-key:full-url", P.InstrPos(call), fname,
			"the cache key contains link.String(), the complete URL",
			"the cache key is not built from the complete URL (link.String()): URLs that differ in scheme or fragment share an entry, so a cache hit can answer a non-https URL or report another URL as the source")
	}
	// (b) a bundle whose error may be non-nil is never stored
	for _, call := range keyed {
		if !isCacheCall(&call.Call, "Add") && !isCacheCall(&call.Call, "ContainsOrAdd") {
			continue
		}
		val := call.Call.Args[2]
		okErr := false
		why := "cannot identify the stored bundle"
		if u, ok := val.(*ssa.UnOp); ok && u.Op == token.MUL {
			if a, ok := u.X.(*ssa.Alloc); ok {
				sts := fieldStores(a, "err")
				why = "the stored bundle's error may be non-nil: an outcome that depends on the remaining redirect budget (or a transient failure) is served to later fetches with a fresh budget"
				all := len(sts) > 0
				for _, sv := range sts {
					if !isNilConst(sv) && !knownNil(sv, call.Block()) {
						all = false
					}
				}
				okErr = all
				// stored triple equals the returned triple
			}
		}
		c.check(okErr, fname+"/cache-add:no-error", P.InstrPos(call), fname, "only bundles with a nil error are stored", why)
	}
}

// callSiteInvariant: every external caller passes the same constant for p.
func callSiteInvariant(P *Program, fn *ssa.Function, p *ssa.Parameter) bool {
	idx := -1
	for i, q := range fn.Params {
		if q == p {
			idx = i
		}
	}
	vals := map[string]bool{}
	for _, e := range P.Callers(fn) {
		if e.Site == nil || e.Caller.Func == fn {
			continue
		}
		a := e.Site.Common().Args[idx]
		if s, ok := constString(a); ok {
			vals["s:"+s] = true
			continue
		}
		if lits, ok := constStringSlice(a); ok {
			vals["l:"+strings.Join(lits, "\x00")] = true
			continue
		}
		return false
	}
	return len(vals) == 1
}

// constStringSlice: a is a slice literal of string constants.
func constStringSlice(a ssa.Value) ([]string, bool) {
	// a package-level list: `var kinds = []string{…}`, assigned once by the
	// initialiser and never written through
	if ld, isLd := a.(*ssa.UnOp); isLd && ld.Op == token.MUL {
		if g, isG := ld.X.(*ssa.Global); isG && g.Pkg != nil {
			var lit ssa.Value
			n, written := 0, false
			for _, m := range g.Pkg.Members {
				f, isF := m.(*ssa.Function)
				if !isF {
					continue
				}
				for _, ff := range append([]*ssa.Function{f}, f.AnonFuncs...) {
					eachInstr(ff, func(_ *ssa.BasicBlock, _ int, in ssa.Instruction) {
						st, isSt := in.(*ssa.Store)
						if !isSt {
							return
						}
						if st.Addr == ssa.Value(g) {
							n++
							lit = st.Val
							if ff.Name() != "init" {
								written = true
							}
						}
						if ia, isIA := st.Addr.(*ssa.IndexAddr); isIA {
							if l2, ok := ia.X.(*ssa.UnOp); ok && l2.Op == token.MUL && l2.X == ssa.Value(g) {
								written = true
							}
						}
					})
				}
			}
			if n == 1 && !written && lit != nil {
				return constStringSlice(lit)
			}
			return nil, false
		}
	}
	sl, ok := a.(*ssa.Slice)
	if !ok {
		return nil, false
	}
	arr, ok := sl.X.(*ssa.Alloc)
	if !ok {
		return nil, false
	}
	var out []string
	for _, r := range refs(arr) {
		ia, ok := r.(*ssa.IndexAddr)
		if !ok {
			continue
		}
		for _, rr := range refs(ia) {
			if st, ok := rr.(*ssa.Store); ok {
				s, isC := constString(st.Val)
				if !isC {
					return nil, false
				}
				out = append(out, s)
			}
		}
	}
	return out, len(out) > 0
}

// lineReadCall: v is the text of a line read from a bufio.Reader — result #0
// of ReadString or ReadBytes, possibly converted to a string; returns the read.
func lineReadCall(v ssa.Value) *ssa.Call {
	v = unwrapLoad(v)
	if cv, ok := v.(*ssa.Convert); ok {
		v = unwrapLoad(cv.X)
	}
	ex, ok := v.(*ssa.Extract)
	if !ok || ex.Index != 0 {
		return nil
	}
	rc, ok := ex.Tuple.(*ssa.Call)
	if !ok || !(isLibCall(&rc.Call, "bufio", "Reader", "ReadString") || isLibCall(&rc.Call, "bufio", "Reader", "ReadBytes")) {
		return nil
	}
	return rc
}

// wholeLines (C03.R7 and C05.R5): the anchored recognisers of the response head
// (status line, Content-Type, Location, end of head) are sound only on strings
// that start at a line start and end at its line feed. Every string they are
// given must therefore be result #0 of (*bufio.Reader).ReadString('\n') whose
// error is known to be nil at the use: ReadString returns a nil error exactly
// when the line is complete, whatever its length. ReadLine / ReadSlice /
// Scanner hand out fragments (long lines, a stream cut before the line feed)
// that look like lines.
func wholeLines(c *Ctx) {
	P := c.P
	recognisers := map[*ssa.Function]bool{}
	for _, fn := range P.FuncsIn("servitor/jtp") {
		if len(fn.Params) == 0 || !isStringType(fn.Params[0].Type()) {
			continue
		}
		// a function that applies a package-level regexp to its first parameter
		uses := false
		eachInstr(fn, func(_ *ssa.BasicBlock, _ int, in ssa.Instruction) {
			call, ok := in.(*ssa.Call)
			if !ok || !isLibCall(&call.Call, "regexp", "Regexp", "FindStringSubmatch") && !isLibCall(&call.Call, "regexp", "Regexp", "MatchString") {
				return
			}
			if len(call.Call.Args) == 2 && unwrapLoad(call.Call.Args[1]) == ssa.Value(fn.Params[0]) {
				uses = true
			}
		})
		if uses {
			recognisers[fn] = true
		}
	}
	c.info("line_recognisers", len(recognisers))
	// lineOK: v, used in block b, is a complete line of the stream or a constant
	var lineOK func(v ssa.Value, b *ssa.BasicBlock, depth int) (bool, string)
	lineOK = func(v ssa.Value, b *ssa.BasicBlock, depth int) (bool, string) {
		v = unwrapLoad(v)
		why := "the text is not a line read by (*bufio.Reader).ReadString('\\n')"
		if depth > 4 {
			return false, why
		}
		if _, isConst := v.(*ssa.Const); isConst {
			return true, "" // not data from the stream
		}
		if ph, isPhi := v.(*ssa.Phi); isPhi {
			for k, ed := range ph.Edges {
				pred := ph.Block().Preds[k]
				okEdge, whyEdge := false, ""
				withEdge(pred, ph.Block(), func() { okEdge, whyEdge = lineOK(ed, pred, depth+1) })
				if !okEdge {
					return false, whyEdge
				}
			}
			return true, ""
		}
		if cv, isConv := v.(*ssa.Convert); isConv {
			v = unwrapLoad(cv.X) // string(bytes) of ReadBytes
		}
		if ex, isEx := v.(*ssa.Extract); isEx && ex.Index == 0 {
			if rs, isCall := ex.Tuple.(*ssa.Call); isCall && (isLibCall(&rs.Call, "bufio", "Reader", "ReadString") || isLibCall(&rs.Call, "bufio", "Reader", "ReadBytes")) {
				delim, isC := constInt(rs.Call.Args[1])
				e, _ := errorResult(rs)
				switch {
				case !isC || delim != 10:
					return false, "the line is not delimited by the line feed"
				case e == nil || !knownNil(e, b):
					return false, "the error of ReadString is not known to be nil where its text is used: a line cut off by the end of the stream, a timeout or a reset is treated as a complete line"
				}
				return true, ""
			}
		}
		return false, why
	}
	checkLine := func(fn *ssa.Function, v ssa.Value, at ssa.Instruction, what string) {
		fname := FuncName(fn)
		ok, why := lineOK(v, at.Block(), 0)
		c.check(ok, fname+"/whole-line:"+what, P.InstrPos(at), fname, "a complete line (ReadString('\\n') with nil error)", "the text given to "+what+": "+why)
	}
	for _, fn := range P.FuncsIn("servitor/jtp") {
		if recognisers[fn] {
			continue
		}
		eachInstr(fn, func(_ *ssa.BasicBlock, _ int, in ssa.Instruction) {
			switch x := in.(type) {
			case *ssa.Call:
				if callee := x.Call.StaticCallee(); callee != nil && recognisers[callee] {
					checkLine(fn, x.Call.Args[0], in, callee.Name())
				}
			case *ssa.BinOp:
				// end of head: line == "\r\n" || line == "\n"
				if x.Op != token.EQL && x.Op != token.NEQ {
					return
				}
				for _, pair := range [][2]ssa.Value{{x.X, x.Y}, {x.Y, x.X}} {
					if s, isC := constString(pair[1]); isC && (s == "\r\n" || s == "\n") {
						checkLine(fn, pair[0], in, "end-of-head")
					}
				}
			}
		})
	}
}

func isStringType(t types.Type) bool {
	b, ok := t.Underlying().(*types.Basic)
	return ok && b.Info()&types.IsString != 0
}

// c03R8: singleflight hands the first caller's result to every caller that
// arrives with the same key while the fetch is in flight. The key of every
// Group.Do in the module must therefore be the complete serialisation of the
// URL being fetched (uri.String()): a key made of components lets a fetch of
// another URL (same path, other query) receive this one's document and source.
func c03R8(c *Ctx) {
	P := c.P
	n := 0
	for _, fn := range P.Funcs {
		fname := FuncName(fn)
		eachInstr(fn, func(_ *ssa.BasicBlock, _ int, in ssa.Instruction) {
			call, ok := in.(*ssa.Call)
			if !ok || !(isLibCall(&call.Call, "golang.org/x/sync/singleflight", "Group", "Do") || isLibCall(&call.Call, "golang.org/x/sync/singleflight", "Group", "DoChan")) {
				return
			}
			n++
			okKey := false
			if kc, ok := unwrapLoad(call.Call.Args[1]).(*ssa.Call); ok && isLibCall(&kc.Call, "net/url", "URL", "String") {
				// the URL whose String() is the key must be the URL that is fetched inside
				keyURL := unwrapLoad(kc.Call.Args[0])
				fetched := false
				var cl *ssa.Function
				switch f := call.Call.Args[2].(type) {
				case *ssa.MakeClosure:
					cl = f.Fn.(*ssa.Function)
				case *ssa.Function:
					cl = f
				}
				if cl != nil {
					get := P.Func("servitor/jtp", "Get")
					eachInstr(cl, func(_ *ssa.BasicBlock, _ int, in2 ssa.Instruction) {
						if gc, ok := in2.(*ssa.Call); ok && gc.Call.StaticCallee() == get {
							if resolveCell(unwrapLoad(gc.Call.Args[0])) == resolveCell(keyURL) || path(gc.Call.Args[0]) == path(keyURL) {
								fetched = true
							}
						}
					})
				}
				okKey = fetched
			}
			c.check(okKey, fname+"/in-flight-key", P.InstrPos(in), fname, "in-flight fetches are shared by uri.String() of the URL that is fetched",
				"the key under which in-flight fetches are shared is not the complete URL being fetched: a concurrent fetch of another URL (same path, other query or fragment) receives this one's document and source")
		})
	}
	c.check(n >= 1, "servitor/client.FetchURL/coalescing", P.Pos(P.Func("servitor/client", "FetchURL").Pos()), "servitor/client.FetchURL", fmt.Sprintf("%d singleflight call sites", n), "fetches are no longer coalesced through singleflight (informational)")
}

// stripStringConv: through conversions between string types (a named status
// type and string).
func stripStringConv(v ssa.Value) ssa.Value {
	for i := 0; i < 4 && v != nil; i++ {
		switch x := v.(type) {
		case *ssa.ChangeType:
			if isStringType(x.Type()) && isStringType(x.X.Type()) {
				v = x.X
				continue
			}
		case *ssa.Convert:
			if isStringType(x.Type()) && isStringType(x.X.Type()) {
				v = x.X
				continue
			}
		}
		return v
	}
	return v
}
