package main

import (
	"math/big"
	"sort"
)

// A small exact decision procedure for linear arithmetic over the rationals,
// used where the combination search of proveNonNeg3 is too weak or too slow
// (loop-invariant inference, engine E9). lpFeasible decides whether a set of
// constraints f_i >= 0 has a rational solution with the symbols listed in
// nonNeg restricted to >= 0; it is a textbook two-phase simplex (phase 1 only)
// on a dense tableau of big.Rat with Bland's rule, so it terminates and is
// exact. Soundness for the integers: "hyps ∧ g <= -1 has no rational solution"
// implies it has no integer solution, hence hyps ⇒ g >= 0 over the integers.

var lpCalls, lpBig int

// lpFeasible: fast path in 64-bit fractions with overflow detection, falling
// back to the big.Rat solver when a number gets large. Duplicate and
// constant-true constraints are dropped first.
func lpFeasible(cons []linForm, nonNeg map[string]bool) bool {
	lpCalls++
	seen := map[string]bool{}
	var cs []linForm
	for _, f := range cons {
		nz := false
		for _, k := range f.coef {
			if k != 0 {
				nz = true
				break
			}
		}
		if !nz {
			if f.c < 0 {
				return false
			}
			continue
		}
		k := f.String()
		if seen[k] {
			continue
		}
		seen[k] = true
		cs = append(cs, f)
	}
	if res, ok := lpFeasibleSmall(cs, nonNeg); ok {
		return res
	}
	lpBig++
	return lpFeasibleBig(cs, nonNeg)
}

type frac struct{ n, d int64 } // d > 0

type fracOverflow struct{}

func gcd64(a, b int64) int64 {
	if a < 0 {
		a = -a
	}
	if b < 0 {
		b = -b
	}
	for b != 0 {
		a, b = b, a%b
	}
	if a == 0 {
		return 1
	}
	return a
}

const fracLimit = int64(1) << 30

func mkFrac(n, d int64) frac {
	if d < 0 {
		n, d = -n, -d
	}
	g := gcd64(n, d)
	n, d = n/g, d/g
	if n > fracLimit || n < -fracLimit || d > fracLimit {
		panic(fracOverflow{})
	}
	return frac{n, d}
}

func (a frac) mul(b frac) frac { return mkFrac(a.n*b.n, a.d*b.d) }
func (a frac) sub(b frac) frac { return mkFrac(a.n*b.d-b.n*a.d, a.d*b.d) }
func (a frac) quo(b frac) frac { return mkFrac(a.n*b.d, a.d*b.n) }
func (a frac) sign() int {
	switch {
	case a.n > 0:
		return 1
	case a.n < 0:
		return -1
	}
	return 0
}
func (a frac) cmp(b frac) int { return a.sub(b).sign() }

// lpFeasibleSmall: the same algorithm as lpFeasibleBig on int64 fractions;
// ok=false when a number left the safe range.
func lpFeasibleSmall(cons []linForm, nonNeg map[string]bool) (res bool, ok bool) {
	defer func() {
		if r := recover(); r != nil {
			if _, isOv := r.(fracOverflow); isOv {
				res, ok = false, false
				return
			}
			panic(r)
		}
	}()
	symSet := map[string]bool{}
	for _, f := range cons {
		for s, k := range f.coef {
			if k != 0 {
				symSet[s] = true
			}
		}
	}
	syms := make([]string, 0, len(symSet))
	for s := range symSet {
		syms = append(syms, s)
	}
	sort.Strings(syms)
	col := map[string]int{}
	ncol := 0
	for _, s := range syms {
		col[s] = ncol
		ncol++
		if !nonNeg[s] && !isLenSym(s) {
			ncol++
		}
	}
	m := len(cons)
	total := ncol + 2*m
	zero := frac{0, 1}
	rows := make([][]frac, m)
	basis := make([]int, m)
	for i, f := range cons {
		r := make([]frac, total+1)
		for j := range r {
			r[j] = zero
		}
		for s, k := range f.coef {
			if k == 0 {
				continue
			}
			j := col[s]
			r[j] = mkFrac(k, 1)
			if !nonNeg[s] && !isLenSym(s) {
				r[j+1] = mkFrac(-k, 1)
			}
		}
		r[ncol+i] = mkFrac(-1, 1)
		r[total] = mkFrac(-f.c, 1)
		if r[total].sign() < 0 {
			for j := range r {
				r[j] = frac{-r[j].n, r[j].d}
			}
		}
		r[ncol+m+i] = mkFrac(1, 1)
		basis[i] = ncol + m + i
		rows[i] = r
	}
	obj := make([]frac, total+1)
	for j := range obj {
		obj[j] = zero
	}
	for i := 0; i < m; i++ {
		for j := 0; j <= total; j++ {
			if j >= ncol+m && j < total {
				continue
			}
			obj[j] = obj[j].sub(rows[i][j])
		}
	}
	for iter := 0; iter < 5000; iter++ {
		enter := -1
		for j := 0; j < total; j++ {
			if obj[j].sign() < 0 {
				enter = j
				break
			}
		}
		if enter < 0 {
			break
		}
		leave := -1
		var best frac
		for i := 0; i < m; i++ {
			if rows[i][enter].sign() <= 0 {
				continue
			}
			ratio := rows[i][total].quo(rows[i][enter])
			if leave < 0 || ratio.cmp(best) < 0 || (ratio.cmp(best) == 0 && basis[i] < basis[leave]) {
				leave, best = i, ratio
			}
		}
		if leave < 0 {
			return true, true
		}
		piv := rows[leave][enter]
		for j := 0; j <= total; j++ {
			if rows[leave][j].n != 0 {
				rows[leave][j] = rows[leave][j].quo(piv)
			}
		}
		for i := 0; i < m; i++ {
			if i == leave || rows[i][enter].n == 0 {
				continue
			}
			f := rows[i][enter]
			for j := 0; j <= total; j++ {
				if rows[leave][j].n != 0 {
					rows[i][j] = rows[i][j].sub(f.mul(rows[leave][j]))
				}
			}
		}
		if obj[enter].n != 0 {
			f := obj[enter]
			for j := 0; j <= total; j++ {
				if rows[leave][j].n != 0 {
					obj[j] = obj[j].sub(f.mul(rows[leave][j]))
				}
			}
		}
		basis[leave] = enter
	}
	return obj[total].sign() == 0, true
}

func lpFeasibleBig(cons []linForm, nonNeg map[string]bool) bool {
	// variables: x = xp - xn for free symbols, x = xp for non-negative ones
	symSet := map[string]bool{}
	for _, f := range cons {
		for s, k := range f.coef {
			if k != 0 {
				symSet[s] = true
			}
		}
	}
	syms := make([]string, 0, len(symSet))
	for s := range symSet {
		syms = append(syms, s)
	}
	sort.Strings(syms)
	col := map[string]int{}
	ncol := 0
	for _, s := range syms {
		col[s] = ncol
		ncol++
		if !nonNeg[s] && !isLenSym(s) {
			ncol++ // the negative part follows directly
		}
	}
	m := len(cons)
	// columns: structural (ncol) | slack (m) | artificial (m) | rhs
	total := ncol + 2*m
	rows := make([][]*big.Rat, m)
	basis := make([]int, m)
	for i, f := range cons {
		r := make([]*big.Rat, total+1)
		for j := range r {
			r[j] = new(big.Rat)
		}
		// sum a_j x_j - s = -c
		for s, k := range f.coef {
			if k == 0 {
				continue
			}
			j := col[s]
			r[j].SetInt64(k)
			if !nonNeg[s] && !isLenSym(s) {
				r[j+1].SetInt64(-k)
			}
		}
		r[ncol+i].SetInt64(-1)
		r[total].SetInt64(-f.c)
		if r[total].Sign() < 0 {
			for j := range r {
				r[j].Neg(r[j])
			}
		}
		r[ncol+m+i].SetInt64(1)
		basis[i] = ncol + m + i
		rows[i] = r
	}
	// phase-1 objective: minimise the sum of artificials; reduced costs
	// z_j = -sum over rows of column j (for non-artificial columns)
	obj := make([]*big.Rat, total+1)
	for j := range obj {
		obj[j] = new(big.Rat)
	}
	for i := 0; i < m; i++ {
		for j := 0; j <= total; j++ {
			if j >= ncol+m && j < total {
				continue
			}
			obj[j].Sub(obj[j], rows[i][j])
		}
	}
	tmp := new(big.Rat)
	for iter := 0; iter < 5000; iter++ {
		// entering column: the first with negative reduced cost (Bland)
		enter := -1
		for j := 0; j < total; j++ {
			if obj[j].Sign() < 0 {
				enter = j
				break
			}
		}
		if enter < 0 {
			break
		}
		// leaving row: minimum ratio, ties by smallest basis index (Bland)
		leave := -1
		var best *big.Rat
		for i := 0; i < m; i++ {
			if rows[i][enter].Sign() <= 0 {
				continue
			}
			ratio := new(big.Rat).Quo(rows[i][total], rows[i][enter])
			if leave < 0 || ratio.Cmp(best) < 0 || (ratio.Cmp(best) == 0 && basis[i] < basis[leave]) {
				leave, best = i, ratio
			}
		}
		if leave < 0 {
			// unbounded phase 1 cannot happen (objective bounded below by 0)
			return true
		}
		piv := new(big.Rat).Set(rows[leave][enter])
		for j := 0; j <= total; j++ {
			rows[leave][j].Quo(rows[leave][j], piv)
		}
		for i := 0; i < m; i++ {
			if i == leave || rows[i][enter].Sign() == 0 {
				continue
			}
			f := new(big.Rat).Set(rows[i][enter])
			for j := 0; j <= total; j++ {
				tmp.Mul(f, rows[leave][j])
				rows[i][j].Sub(rows[i][j], tmp)
			}
		}
		if obj[enter].Sign() != 0 {
			f := new(big.Rat).Set(obj[enter])
			for j := 0; j <= total; j++ {
				tmp.Mul(f, rows[leave][j])
				obj[j].Sub(obj[j], tmp)
			}
		}
		basis[leave] = enter
	}
	// optimum of phase 1 is -obj[total]; feasible iff it is zero
	return obj[total].Sign() == 0
}

func isLenSym(s string) bool {
	return len(s) > 4 && (s[:4] == "len(" || s[:4] == "len:")
}

// lpImplies: hyps ⇒ g >= 0 over the integers (decided over the rationals with
// the integer negation g <= -1).
func lpImplies(hyps []linForm, g linForm, nonNeg map[string]bool) bool {
	neg := newLin().add(g, -1)
	neg.c -= 1
	cons := append(append([]linForm{}, hyps...), neg)
	return !lpFeasible(cons, nonNeg)
}
