package main

import (
	"math/big"
	"sort"
)

// A small exact decision procedure for linear arithmetic over the rationals,
// used where the combination search of proveNonNeg3 is too weak or too slow
// (loop-invariant inference, engine E9). lpFeasible decides whether a set of
// constraints f_i >= 0 has a rational solution with the symbols listed in
// nonNeg restricted to >= 0; it is a textbook two-phase simplex (phase 1 only)
// on a dense tableau of big.Rat with Bland's rule, so it terminates and is
// exact. Soundness for the integers: "hyps ∧ g <= -1 has no rational solution"
// implies it has no integer solution, hence hyps ⇒ g >= 0 over the integers.

func lpFeasible(cons []linForm, nonNeg map[string]bool) bool {
	// variables: x = xp - xn for free symbols, x = xp for non-negative ones
	symSet := map[string]bool{}
	for _, f := range cons {
		for s, k := range f.coef {
			if k != 0 {
				symSet[s] = true
			}
		}
	}
	syms := make([]string, 0, len(symSet))
	for s := range symSet {
		syms = append(syms, s)
	}
	sort.Strings(syms)
	col := map[string]int{}
	ncol := 0
	for _, s := range syms {
		col[s] = ncol
		ncol++
		if !nonNeg[s] && !isLenSym(s) {
			ncol++ // the negative part follows directly
		}
	}
	m := len(cons)
	// columns: structural (ncol) | slack (m) | artificial (m) | rhs
	total := ncol + 2*m
	rows := make([][]*big.Rat, m)
	basis := make([]int, m)
	for i, f := range cons {
		r := make([]*big.Rat, total+1)
		for j := range r {
			r[j] = new(big.Rat)
		}
		// sum a_j x_j - s = -c
		for s, k := range f.coef {
			if k == 0 {
				continue
			}
			j := col[s]
			r[j].SetInt64(k)
			if !nonNeg[s] && !isLenSym(s) {
				r[j+1].SetInt64(-k)
			}
		}
		r[ncol+i].SetInt64(-1)
		r[total].SetInt64(-f.c)
		if r[total].Sign() < 0 {
			for j := range r {
				r[j].Neg(r[j])
			}
		}
		r[ncol+m+i].SetInt64(1)
		basis[i] = ncol + m + i
		rows[i] = r
	}
	// phase-1 objective: minimise the sum of artificials; reduced costs
	// z_j = -sum over rows of column j (for non-artificial columns)
	obj := make([]*big.Rat, total+1)
	for j := range obj {
		obj[j] = new(big.Rat)
	}
	for i := 0; i < m; i++ {
		for j := 0; j <= total; j++ {
			if j >= ncol+m && j < total {
				continue
			}
			obj[j].Sub(obj[j], rows[i][j])
		}
	}
	tmp := new(big.Rat)
	for iter := 0; iter < 5000; iter++ {
		// entering column: the first with negative reduced cost (Bland)
		enter := -1
		for j := 0; j < total; j++ {
			if obj[j].Sign() < 0 {
				enter = j
				break
			}
		}
		if enter < 0 {
			break
		}
		// leaving row: minimum ratio, ties by smallest basis index (Bland)
		leave := -1
		var best *big.Rat
		for i := 0; i < m; i++ {
			if rows[i][enter].Sign() <= 0 {
				continue
			}
			ratio := new(big.Rat).Quo(rows[i][total], rows[i][enter])
			if leave < 0 || ratio.Cmp(best) < 0 || (ratio.Cmp(best) == 0 && basis[i] < basis[leave]) {
				leave, best = i, ratio
			}
		}
		if leave < 0 {
			// unbounded phase 1 cannot happen (objective bounded below by 0)
			return true
		}
		piv := new(big.Rat).Set(rows[leave][enter])
		for j := 0; j <= total; j++ {
			rows[leave][j].Quo(rows[leave][j], piv)
		}
		for i := 0; i < m; i++ {
			if i == leave || rows[i][enter].Sign() == 0 {
				continue
			}
			f := new(big.Rat).Set(rows[i][enter])
			for j := 0; j <= total; j++ {
				tmp.Mul(f, rows[leave][j])
				rows[i][j].Sub(rows[i][j], tmp)
			}
		}
		if obj[enter].Sign() != 0 {
			f := new(big.Rat).Set(obj[enter])
			for j := 0; j <= total; j++ {
				tmp.Mul(f, rows[leave][j])
				obj[j].Sub(obj[j], tmp)
			}
		}
		basis[leave] = enter
	}
	// optimum of phase 1 is -obj[total]; feasible iff it is zero
	return obj[total].Sign() == 0
}

func isLenSym(s string) bool {
	return len(s) > 4 && (s[:4] == "len(" || s[:4] == "len:")
}

// lpImplies: hyps ⇒ g >= 0 over the integers (decided over the rationals with
// the integer negation g <= -1).
func lpImplies(hyps []linForm, g linForm, nonNeg map[string]bool) bool {
	neg := newLin().add(g, -1)
	neg.c -= 1
	cons := append(append([]linForm{}, hyps...), neg)
	return !lpFeasible(cons, nonNeg)
}
