package main

import (
	"go/ast"
	"go/token"
	"go/types"
	"sort"
	"strings"

	"golang.org/x/tools/go/packages"
)

// tableRound: a chain of comparisons that became a lookup in a constant table
// is turned back into the chain. A table is a package-level `var t =
// map[K]V{…}` that is new to the checker, has at most 12 entries with constant
// keys and constant (or plain literal) values, and is only ever indexed — never
// stored to, ranged over, measured, passed on or deleted from — so its
// contents are those of the literal for the whole run. With k an operand
// without effects:
//
//	t[k]                (V is bool)   ->  (k == c1 || k == c2 || …)   over the entries that are true
//	v, ok := t[k]                      ->  var v V; var ok bool; switch k { case c1: v, ok = v1, true … }
//	if v, ok := t[k]; cond { … }       ->  { the same declarations and switch; if cond { … } }
//	x := t[k] / x = t[k] / return t[k] ->  through the same switch into a fresh variable
//
// The tests the rules look for (`status == "200"`, `link.Scheme == "https"`)
// are then in the flow graph again.
func tableRound(pkgs []*packages.Package, overlay map[string][]byte, counter *int) (map[string][]byte, []string) {
	var log []string
	edits := map[string][]srcEdit{}
	for _, pkg := range pkgs {
		if !isServitorPath(pkg.PkgPath) || len(pkg.Errors) > 0 {
			continue
		}
		info, fset := pkg.TypesInfo, pkg.Fset
		off := func(p token.Pos) int { return fset.Position(p).Offset }
		fileOf := func(p token.Pos) string { return fset.File(p).Name() }
		type table struct {
			obj   *types.Var
			lit   *ast.CompositeLit
			file  *ast.File
			keys  []string // source text
			vals  []string
			truth []bool // for bool tables
			isSet bool
			vtype string
		}
		tables := map[*types.Var]*table{}
		for _, f := range pkg.Syntax {
			if strings.HasSuffix(fileOf(f.Pos()), "_test.go") {
				continue
			}
			src := readSource(fileOf(f.Pos()), overlay)
			text := func(n ast.Node) string { return string(src[off(n.Pos()):off(n.End())]) }
			for _, d := range f.Decls {
				gd, ok := d.(*ast.GenDecl)
				if !ok || gd.Tok != token.VAR {
					continue
				}
				for _, sp := range gd.Specs {
					vs := sp.(*ast.ValueSpec)
					if len(vs.Names) != 1 || len(vs.Values) != 1 {
						continue
					}
					lit, ok := vs.Values[0].(*ast.CompositeLit)
					if !ok {
						continue
					}
					obj, _ := info.Defs[vs.Names[0]].(*types.Var)
					if obj == nil {
						continue
					}
					if _, known := anchorSigs["var:"+pkg.PkgPath+"."+obj.Name()]; known {
						continue
					}
					mt, ok := obj.Type().Underlying().(*types.Map)
					if !ok || len(lit.Elts) == 0 || len(lit.Elts) > 12 {
						continue
					}
					if b, ok := mt.Key().Underlying().(*types.Basic); !ok || b.Info()&(types.IsString|types.IsInteger) == 0 {
						continue
					}
					mtAst, ok := lit.Type.(*ast.MapType)
					if !ok {
						continue
					}
					t := &table{obj: obj, lit: lit, file: f, vtype: text(mtAst.Value)}
					if b, ok := mt.Elem().Underlying().(*types.Basic); ok && b.Kind() == types.Bool {
						t.isSet = true
					}
					good := true
					for _, el := range lit.Elts {
						kv, ok := el.(*ast.KeyValueExpr)
						if !ok {
							good = false
							break
						}
						ktv, kok := info.Types[kv.Key]
						vtv, vok := info.Types[kv.Value]
						if !kok || ktv.Value == nil || !vok {
							good = false
							break
						}
						if vtv.Value == nil && !plainLiteral(kv.Value) {
							good = false
							break
						}
						t.keys = append(t.keys, text(kv.Key))
						t.vals = append(t.vals, text(kv.Value))
						t.truth = append(t.truth, vtv.Value != nil && vtv.Value.String() == "true")
					}
					if good {
						tables[obj] = t
					}
				}
			}
		}
		if len(tables) == 0 {
			continue
		}
		// parents, and every use of a table classified
		parent := map[ast.Node]ast.Node{}
		for _, f := range pkg.Syntax {
			var stack []ast.Node
			ast.Inspect(f, func(n ast.Node) bool {
				if n == nil {
					stack = stack[:len(stack)-1]
					return true
				}
				if len(stack) > 0 {
					parent[n] = stack[len(stack)-1]
				}
				stack = append(stack, n)
				return true
			})
		}
		type use struct {
			ix   *ast.IndexExpr
			file *ast.File
		}
		uses := map[*types.Var][]use{}
		bad := map[*types.Var]string{}
		for _, other := range pkgs {
			if other == pkg || other.TypesInfo == nil {
				continue
			}
			for _, o := range other.TypesInfo.Uses {
				if v, ok := o.(*types.Var); ok && tables[v] != nil {
					bad[v] = "used in another package"
				}
			}
		}
		for _, f := range pkg.Syntax {
			ast.Inspect(f, func(n ast.Node) bool {
				id, ok := n.(*ast.Ident)
				if !ok {
					return true
				}
				v, _ := info.Uses[id].(*types.Var)
				if v == nil || tables[v] == nil {
					return true
				}
				ix, ok := parent[id].(*ast.IndexExpr)
				if !ok || ix.X != ast.Expr(id) || !isSimpleOperand(ix.Index) {
					bad[v] = "used other than by a lookup with a plain key"
					return true
				}
				switch p := parent[ix].(type) {
				case *ast.AssignStmt:
					for _, l := range p.Lhs {
						if l == ast.Expr(ix) {
							bad[v] = "stored to"
						}
					}
				case *ast.IncDecStmt:
					bad[v] = "stored to"
				case *ast.UnaryExpr:
					if p.Op == token.AND {
						bad[v] = "address taken"
					}
				}
				uses[v] = append(uses[v], use{ix, f})
				return true
			})
		}
		var order []*types.Var
		for v := range tables {
			order = append(order, v)
		}
		sort.Slice(order, func(i, j int) bool { return order[i].Name() < order[j].Name() })
		for _, v := range order {
			t := tables[v]
			if why := bad[v]; why != "" {
				log = append(log, "table "+pkg.PkgPath+"."+v.Name()+" kept ("+why+")")
				continue
			}
			if len(uses[v]) == 0 {
				continue
			}
			var mine []srcEdit
			var mineFiles []string
			why := ""
			for _, u := range uses[v] {
				fname := fileOf(u.file.Pos())
				src := readSource(fname, overlay)
				text := func(n ast.Node) string { return string(src[off(n.Pos()):off(n.End())]) }
				add := func(pos, end token.Pos, s string) {
					mine = append(mine, srcEdit{off(pos), off(end), s})
					mineFiles = append(mineFiles, fname)
				}
				k := text(u.ix.Index)
				// the switch that computes value and presence into the given names
				sw := func(vname, okname string) string {
					var b strings.Builder
					b.WriteString("switch " + k + " {\n")
					for i := range t.keys {
						b.WriteString("case " + t.keys[i] + ":\n")
						var ls, rs []string
						if vname != "_" {
							ls, rs = append(ls, vname), append(rs, t.vals[i])
						}
						if okname != "_" {
							ls, rs = append(ls, okname), append(rs, "true")
						}
						if len(ls) > 0 {
							b.WriteString(strings.Join(ls, ", ") + " = " + strings.Join(rs, ", ") + "\n")
						}
					}
					b.WriteString("}\n")
					return b.String()
				}
				decls := func(vname, okname string) string {
					s := ""
					if vname != "_" {
						s += "var " + vname + " " + t.vtype + "\n_ = " + vname + "\n"
					}
					if okname != "_" {
						s += "var " + okname + " bool\n_ = " + okname + "\n"
					}
					return s
				}
				p := parent[u.ix]
				if par, ok := p.(*ast.ParenExpr); ok {
					p = parent[par]
				}
				as, isAssign := p.(*ast.AssignStmt)
				commaOk := isAssign && len(as.Lhs) == 2 && len(as.Rhs) == 1
				switch {
				case commaOk:
					vname, okname := text(as.Lhs[0]), text(as.Lhs[1])
					if _, ok := as.Lhs[0].(*ast.Ident); !ok {
						why = "comma-ok into something that is not a variable"
					}
					if _, ok := as.Lhs[1].(*ast.Ident); !ok {
						why = "comma-ok into something that is not a variable"
					}
					switch holder := parent[as].(type) {
					case *ast.BlockStmt, *ast.CaseClause:
						// `v, ok := t[k]; if !ok { …leave… }`: the way out becomes the default case, no flag is needed
						if bail := bailAfter(info, holder, as); bail != nil && as.Tok == token.DEFINE && why == "" {
							var b strings.Builder
							if vname != "_" {
								b.WriteString("var " + vname + " " + t.vtype + "\n_ = " + vname + "\n")
							}
							b.WriteString("switch " + k + " {\n")
							for i := range t.keys {
								b.WriteString("case " + t.keys[i] + ":\n")
								if vname != "_" {
									b.WriteString(vname + " = " + t.vals[i] + "\n")
								}
							}
							b.WriteString("default:\n" + text(bail.Body) + "\n}\n")
							add(as.Pos(), bail.End(), b.String())
							break
						}
						if as.Tok == token.DEFINE {
							add(as.Pos(), as.End(), decls(vname, okname)+sw(vname, okname))
						} else {
							// plain assignment: absent keys give the zero value
							zero := ""
							if vname != "_" {
								zero += vname + " = *new(" + t.vtype + ")\n"
							}
							if okname != "_" {
								zero += okname + " = false\n"
							}
							add(as.Pos(), as.End(), zero+sw(vname, okname))
						}
					case *ast.IfStmt:
						if holder.Init != ast.Stmt(as) || as.Tok != token.DEFINE {
							why = "comma-ok in an unsupported place"
							break
						}
						if _, isElse := parent[holder].(*ast.IfStmt); isElse {
							why = "comma-ok in an else-if"
							break
						}
						if _, inBlock := parent[holder].(*ast.BlockStmt); !inBlock {
							if _, inCase := parent[holder].(*ast.CaseClause); !inCase {
								why = "comma-ok in an unsupported place"
								break
							}
						}
						add(holder.Pos(), holder.Pos(), "{\n"+decls(vname, okname)+sw(vname, okname))
						add(as.Pos(), holder.Cond.Pos(), "")
						add(holder.End(), holder.End(), "\n}")
					default:
						why = "comma-ok in an unsupported place"
					}
				case t.isSet:
					var parts []string
					for i := range t.keys {
						if t.truth[i] {
							parts = append(parts, k+" == "+t.keys[i])
						}
					}
					if len(parts) == 0 {
						parts = []string{"false"}
					}
					add(u.ix.Pos(), u.ix.End(), "("+strings.Join(parts, " || ")+")")
				default:
					// a value lookup: through a fresh variable set by the switch, in front of the statement that uses it
					var stmt ast.Stmt
					for n := parent[ast.Node(u.ix)]; n != nil; n = parent[n] {
						if s, isStmt := n.(ast.Stmt); isStmt {
							switch parent[s].(type) {
							case *ast.BlockStmt, *ast.CaseClause:
								stmt = s
							}
							break // the innermost statement decides
						}
						if _, isLit := n.(*ast.FuncLit); isLit {
							break
						}
					}
					ok := stmt != nil
					if ok {
						switch s := stmt.(type) {
						case *ast.AssignStmt, *ast.ReturnStmt, *ast.ExprStmt:
							// nothing with effects may be evaluated before the lookup in that statement
							pure := true
							ast.Inspect(s, func(m ast.Node) bool {
								if m == nil || m.Pos() >= u.ix.Pos() {
									return false
								}
								if c, isCall := m.(*ast.CallExpr); isCall {
									if tv, has := info.Types[c.Fun]; !has || !(tv.IsType() || tv.IsBuiltin()) {
										pure = false
									}
								}
								return true
							})
							ok = pure
						default:
							ok = false
						}
					}
					if !ok {
						why = "value lookup in an unsupported place"
						break
					}
					*counter++
					name := "_tbl" + itoa(*counter)
					add(stmt.Pos(), stmt.Pos(), decls(name, "_")+sw(name, "_"))
					add(u.ix.Pos(), u.ix.End(), name)
				}
				if why != "" {
					break
				}
			}
			if why != "" {
				log = append(log, "table "+pkg.PkgPath+"."+v.Name()+" kept ("+why+")")
				continue
			}
			for i, ed := range mine {
				edits[mineFiles[i]] = append(edits[mineFiles[i]], ed)
			}
			log = append(log, "table "+pkg.PkgPath+"."+v.Name()+" unrolled into comparisons at "+itoa(len(uses[v]))+" lookups")
		}
	}
	if len(edits) == 0 {
		return nil, log
	}
	out, ok := applyEdits(edits, overlay)
	if !ok {
		return nil, append(log, "tables kept (overlapping edits)")
	}
	return out, log
}

func itoa(n int) string {
	if n == 0 {
		return "0"
	}
	s := ""
	neg := n < 0
	if neg {
		n = -n
	}
	for n > 0 {
		s = string(rune('0'+n%10)) + s
		n /= 10
	}
	if neg {
		s = "-" + s
	}
	return s
}

// plainLiteral: a composite literal whose elements are basic literals or true/false (a struct of constants; every lookup may build its own copy).
func plainLiteral(e ast.Expr) bool {
	lit, isLit := e.(*ast.CompositeLit)
	if !isLit {
		return false
	}
	for _, el := range lit.Elts {
		v := el
		if kv, ok := el.(*ast.KeyValueExpr); ok {
			v = kv.Value
		}
		switch x := v.(type) {
		case *ast.BasicLit:
		case *ast.Ident:
			if x.Name != "true" && x.Name != "false" {
				return false
			}
		default:
			return false
		}
	}
	return true
}

// bailAfter: the statement after the comma-ok assignment as in its list is `if
// !ok { … }` without else, its body cannot fall out of its end and has no
// break or goto of its own, and ok is used nowhere else; that if statement, or nil.
func bailAfter(info *types.Info, holder ast.Node, as *ast.AssignStmt) *ast.IfStmt {
	var list []ast.Stmt
	switch h := holder.(type) {
	case *ast.BlockStmt:
		list = h.List
	case *ast.CaseClause:
		list = h.Body
	}
	okId, isId := as.Lhs[1].(*ast.Ident)
	if !isId || okId.Name == "_" {
		return nil
	}
	okObj := info.Defs[okId]
	if okObj == nil {
		return nil
	}
	for i, st := range list {
		if st != ast.Stmt(as) || i+1 >= len(list) {
			continue
		}
		ifs, isIf := list[i+1].(*ast.IfStmt)
		if !isIf || ifs.Init != nil || ifs.Else != nil || len(ifs.Body.List) == 0 {
			return nil
		}
		not, isNot := ifs.Cond.(*ast.UnaryExpr)
		if !isNot || not.Op != token.NOT {
			return nil
		}
		cid, isCid := not.X.(*ast.Ident)
		if !isCid || info.Uses[cid] != okObj {
			return nil
		}
		switch last := ifs.Body.List[len(ifs.Body.List)-1].(type) {
		case *ast.ReturnStmt:
		case *ast.BranchStmt:
			if last.Tok != token.CONTINUE {
				return nil
			}
		case *ast.ExprStmt:
			call, isCall := last.X.(*ast.CallExpr)
			if !isCall {
				return nil
			}
			if id, isId := call.Fun.(*ast.Ident); !isId || id.Name != "panic" {
				return nil
			}
		default:
			return nil
		}
		bad := false
		ast.Inspect(ifs.Body, func(n ast.Node) bool {
			switch x := n.(type) {
			case *ast.FuncLit:
				return false
			case *ast.BranchStmt:
				if x.Tok == token.BREAK || x.Tok == token.GOTO || x.Tok == token.FALLTHROUGH {
					bad = true
				}
			}
			return true
		})
		uses := 0
		for _, st2 := range list {
			ast.Inspect(st2, func(n ast.Node) bool {
				if id, ok := n.(*ast.Ident); ok && info.Uses[id] == okObj {
					uses++
				}
				return true
			})
		}
		if bad || uses != 1 {
			return nil
		}
		return ifs
	}
	return nil
}
