package main

import (
	"fmt"
	"go/constant"
	"go/token"
	"go/types"
	"regexp"
	"strings"

	"golang.org/x/tools/go/ssa"
)

// ---- C08.R5: fan-out disjointness -------------------------------------------

type fanClosure struct {
	goI    *ssa.Go
	fn     *ssa.Function
	mc     *ssa.MakeClosure
	inLoop bool
	cells  []cell
	deep   []string // transitive callee writes that reach captured / global state
}

var idxRe = regexp.MustCompile(`\[[^\]]*\]`)

func genericPath(p string) string { return idxRe.ReplaceAllString(p, "[*]") }

func closureCells(E *Effects, g *ssa.Function, mc *ssa.MakeClosure) ([]cell, []string) {
	var cells []cell
	var deep []string
	addCell := func(addr ssa.Value, write bool, in ssa.Instruction) {
		if a, ok := resolveCell(rootAddr(addr)).(*ssa.Alloc); ok && a.Parent() == g {
			// private to this invocation unless the alloc holds a shared pointer,
			// in which case the access goes through a load and is rooted elsewhere
			if _, viaLoad := addr.(*ssa.UnOp); !viaLoad && !throughLoad(addr) {
				return
			}
		}
		if isSyncType(deref(addr.Type())) {
			return
		}
		p, idxCells := cellPath(addr)
		per := false
		for _, a := range idxCells {
			if a.Parent() != g {
				per = true
			}
		}
		cells = append(cells, cell{path: p, perIter: per, write: write, in: in, idxVals: indexValues(addr), idxCells: idxCells})
	}
	eachInstr(g, func(_ *ssa.BasicBlock, _ int, in ssa.Instruction) {
		switch x := in.(type) {
		case *ssa.Store:
			addCell(x.Addr, true, in)
		case *ssa.UnOp:
			if x.Op == token.MUL {
				addCell(x.X, false, in)
			}
		case *ssa.MapUpdate:
			addCell(x.Map, true, in)
		case ssa.CallInstruction:
			c := x.Common()
			if b, ok := c.Value.(*ssa.Builtin); ok && (b.Name() == "copy" || b.Name() == "delete" || b.Name() == "clear") {
				addCell(c.Args[0], true, in)
			}
			for _, callee := range E.P.Callees(x) {
				// a helper whose accesses can be expressed in the closure's own terms
				// (parameters replaced by the arguments) is analysed as if inlined
				if inl, ok := inlinedCells(E, g, x, callee, 0); ok {
					cells = append(cells, inl...)
					continue
				}
				for r, pos := range E.Writes(callee) {
					for _, m := range E.mapRoot(g, x, callee, r) {
						switch {
						case m == "local":
						case strings.HasPrefix(m, "free:"):
							var k int
							fmt.Sscanf(m, "free:%d", &k)
							p, _ := cellPath(g.FreeVars[k])
							cells = append(cells, cell{path: p + ".*", write: true, in: in})
						default:
							deep = append(deep, fmt.Sprintf("%s writes %s (at %s)", callee.String(), m, pos))
						}
					}
				}
			}
		}
	})
	return cells, deep
}

func rootAddr(v ssa.Value) ssa.Value {
	for i := 0; i < 16; i++ {
		switch x := v.(type) {
		case *ssa.FieldAddr:
			v = x.X
		case *ssa.IndexAddr:
			v = x.X
		case *ssa.Slice:
			v = x.X
		case *ssa.UnOp:
			if x.Op == token.MUL {
				v = x.X
			} else {
				return v
			}
		default:
			return v
		}
	}
	return v
}

func throughLoad(v ssa.Value) bool {
	for i := 0; i < 16; i++ {
		switch x := v.(type) {
		case *ssa.FieldAddr:
			v = x.X
		case *ssa.IndexAddr:
			v = x.X
		case *ssa.Slice:
			v = x.X
		case *ssa.UnOp:
			return x.Op == token.MUL
		default:
			return false
		}
	}
	return false
}

// inductionValue: v changes on every iteration of the loop it lives in
// (range index, or counter incremented by a non-zero constant).
func inductionValue(v ssa.Value) bool {
	switch x := v.(type) {
	case *ssa.BinOp:
		if x.Op == token.ADD || x.Op == token.SUB {
			if c, ok := constInt(x.Y); ok && c != 0 {
				if ph, ok := x.X.(*ssa.Phi); ok {
					for _, e := range ph.Edges {
						if unwrapLoad(e) == ssa.Value(x) {
							return true
						}
					}
				}
			}
		}
	case *ssa.Phi:
		for _, e := range x.Edges {
			if b, ok := e.(*ssa.BinOp); ok && unwrapLoad(b.X) == ssa.Value(x) && (b.Op == token.ADD || b.Op == token.SUB) {
				if c, ok := constInt(b.Y); ok && c != 0 {
					return true
				}
			}
		}
	case *ssa.Extract:
		if _, ok := x.Tuple.(*ssa.Next); ok && x.Index == 1 {
			return true // range key
		}
	case *ssa.UnOp:
		// load of a loop variable cell updated by i++ (captured loop variable)
		if x.Op == token.MUL {
			if a, ok := x.X.(*ssa.Alloc); ok {
				for _, st := range storesToAlloc(a) {
					if b, ok := st.Val.(*ssa.BinOp); ok && (b.Op == token.ADD || b.Op == token.SUB) {
						if c, ok := constInt(b.Y); ok && c != 0 {
							return true
						}
					}
				}
			}
		}
	}
	return false
}

func c08R5(c *Ctx) {
	P := c.P
	E := NewEffects(P)
	nFan := 0
	for _, fn := range P.Funcs {
		pk := P.PkgOf(fn)
		if pk == "servitor/ui" || pk == "servitor" {
			continue // UI goroutines are governed by the mutex (R1)
		}
		var gos []*ssa.Go
		eachInstr(fn, func(_ *ssa.BasicBlock, _ int, in ssa.Instruction) {
			if g, ok := in.(*ssa.Go); ok {
				gos = append(gos, g)
			}
		})
		if len(gos) == 0 {
			continue
		}
		nFan++
		fname := FuncName(fn)
		var waits, adds []*ssa.Call
		eachInstr(fn, func(_ *ssa.BasicBlock, _ int, in ssa.Instruction) {
			if call, ok := in.(*ssa.Call); ok {
				if isLibCall(&call.Call, "sync", "WaitGroup", "Wait") {
					waits = append(waits, call)
				}
				if isLibCall(&call.Call, "sync", "WaitGroup", "Add") {
					adds = append(adds, call)
				}
			}
		})
		var closures []*fanClosure
		for _, g := range gos {
			mc, ok := g.Call.Value.(*ssa.MakeClosure)
			if !ok {
				c.bad(fname+"/go-target", P.InstrPos(g), fname, "go statement whose target is not a function literal: its effects are not analysed")
				continue
			}
			fc := &fanClosure{goI: g, fn: mc.Fn.(*ssa.Function), mc: mc, inLoop: inCycle(g.Block())}
			fc.cells, fc.deep = closureCells(E, fc.fn, mc)
			closures = append(closures, fc)
		}
		// (a) join: no return reachable from a go statement without passing Wait
		for _, fc := range closures {
			ok := len(waits) > 0 && !reachesReturnAvoiding(fc.goI, waits)
			c.check(ok, fname+"/join", P.InstrPos(fc.goI), fname,
				"every path from this go statement to a return passes wg.Wait()",
				"a path from this go statement reaches a return without wg.Wait(): the spawner can read results while the goroutine still writes them")
		}
		// (b) Add/Done balance
		constAdds := int64(0)
		straightGos := 0
		lenAdd := map[ssa.Instruction]bool{}
		for _, a := range adds {
			if inCycle(a.Block()) {
				continue
			}
			n, ok := constInt(a.Call.Args[1])
			if !ok {
				// Add(len(xs)) in front of a range over xs in which every trip reaches its go statement
				if fcs := lenAddCovers(a, closures); len(fcs) > 0 {
					for _, fc := range fcs {
						lenAdd[fc.goI] = true
					}
					continue
				}
				c.bad(fname+"/add", P.InstrPos(a), fname, "WaitGroup.Add with a non-constant count")
				continue
			}
			constAdds += n
		}
		for _, fc := range closures {
			if !fc.inLoop {
				straightGos++
				continue
			}
			// loop: an Add(1) in the same iteration dominates the go statement
			ok := lenAdd[fc.goI]
			for _, a := range adds {
				if n, isC := constInt(a.Call.Args[1]); isC && n == 1 && inCycle(a.Block()) && dominatesInstr(a, fc.goI) && blockReaches(fc.goI.Block(), a.Block()) {
					ok = true
				}
			}
			c.check(ok, fname+"/add-per-iteration", P.InstrPos(fc.goI), fname,
				"wg.Add(1) precedes the go statement in every iteration", "no wg.Add(1) paired with this go statement inside the loop")
		}
		c.check(int(constAdds) == straightGos, fname+"/add-total", P.Pos(fn.Pos()), fname,
			fmt.Sprintf("WaitGroup.Add total %d equals the %d go statements outside loops", constAdds, straightGos),
			fmt.Sprintf("WaitGroup.Add total %d differs from the %d go statements outside loops: Wait returns early or blocks forever", constAdds, straightGos))
		for _, fc := range closures {
			nDone := 0
			var done ssa.Instruction
			eachInstr(fc.fn, func(_ *ssa.BasicBlock, _ int, in ssa.Instruction) {
				if cc := callOf(in); cc != nil && isLibCall(cc, "sync", "WaitGroup", "Done") {
					nDone++
					done = in
				}
			})
			ok := nDone == 1
			if ok {
				if _, isDefer := done.(*ssa.Defer); !isDefer {
					// Done must be on every path to every return and not in a cycle
					for _, b := range fc.fn.Blocks {
						if r, isRet := b.Instrs[len(b.Instrs)-1].(*ssa.Return); isRet {
							if !dominatesInstr(done, r) {
								ok = false
							}
						}
					}
					if inCycle(done.Block()) {
						ok = false
					}
				}
			}
			c.check(ok, FuncName(fc.fn)+"/done", P.Pos(fc.fn.Pos()), FuncName(fc.fn),
				"wg.Done() runs exactly once on every path", "wg.Done() is not executed exactly once on every path of the goroutine")
		}
		// (c) disjointness
		for _, fc := range closures {
			gname := FuncName(fc.fn)
			for _, d := range fc.deep {
				if strings.Contains(d, "unknown") {
					continue
				}
				c.bad(gname+"/deep-write", P.InstrPos(fc.goI), gname, "goroutine writes shared state through a callee: "+d)
			}
			for _, w := range fc.cells {
				if !w.write {
					continue
				}
				construct := gname + "/write:" + shortCell(w.path)
				problem := ""
				// against itself in other iterations
				if fc.inLoop {
					if !w.perIter {
						problem = "written by every iteration's goroutine (no per-iteration index)"
					} else if why := perIterationOK(fn, fc, w); why != "" {
						problem = why
					}
				}
				// against siblings
				for _, other := range closures {
					if other == fc {
						continue
					}
					for _, oc := range other.cells {
						if cellsOverlap(genericPath(w.path), genericPath(oc.path)) {
							kind := "read"
							if oc.write {
								kind = "written"
							}
							problem = fmt.Sprintf("also %s by sibling goroutine %s at %s", kind, other.fn.Name(), P.InstrPos(oc.in))
						}
					}
				}
				// against the spawner between the first go and Wait
				for _, pa := range parentAccessesBetween(fn, fc.goI, gos, waits) {
					if cellsOverlap(genericPath(w.path), genericPath(pa.path)) && !sameIterationIndex(pa, w, fc) {
						problem = fmt.Sprintf("also accessed by the spawning function before wg.Wait() at %s", P.InstrPos(pa.in))
					}
				}
				c.check(problem == "", construct, P.InstrPos(w.in), gname,
					"written by this goroutine only; nobody reads it before wg.Wait()", "data race: "+shortCell(w.path)+" "+problem)
			}
			// reads of the goroutine vs writes of the spawner before Wait
			for _, r := range fc.cells {
				if r.write {
					continue
				}
				for _, pa := range parentAccessesBetween(fn, fc.goI, gos, waits) {
					if pa.write && cellsOverlap(genericPath(r.path), genericPath(pa.path)) && !sameIterationIndex(pa, r, fc) {
						c.bad(gname+"/read:"+shortCell(r.path), P.InstrPos(r.in), gname,
							fmt.Sprintf("data race: read by the goroutine while the spawning function writes it at %s before wg.Wait()", P.InstrPos(pa.in)))
					}
				}
			}
		}
	}
	c.info("fan_out_functions", nFan)
}

func shortCell(p string) string {
	p = strings.ReplaceAll(p, "servitor/", "")
	if len(p) > 90 {
		p = p[:90] + "…"
	}
	return p
}

// perIterationOK validates the per-iteration index idiom of write cell w.
func perIterationOK(fn *ssa.Function, fc *fanClosure, w cell) string {
	idxCells := w.idxCells
	for _, a := range idxCells {
		if a.Parent() == fc.fn {
			continue
		}
		if !inCycle(a.Block()) {
			return "index variable " + a.Comment + " is shared by all iterations (allocated outside the loop)"
		}
		sts := storesToAlloc(a)
		if len(sts) != 1 {
			return "index variable " + a.Comment + " is assigned more than once"
		}
		if sts[0].Parent() != fn {
			return "index variable " + a.Comment + " is written inside a goroutine"
		}
		if isAddrExpr(sts[0].Val) {
			// a pointer to one element: the element's index must be the induction value
			for _, iv := range indexValues(sts[0].Val) {
				if inductionValue(iv) {
					return ""
				}
			}
			return "pointer variable " + a.Comment + " does not point to a distinct element per iteration"
		}
		if !inductionValue(sts[0].Val) {
			return "index variable " + a.Comment + " does not take a distinct value per iteration"
		}
		return ""
	}
	return "no per-iteration index"
}

func addrOf(in ssa.Instruction) ssa.Value {
	switch x := in.(type) {
	case *ssa.Store:
		return x.Addr
	case *ssa.UnOp:
		return x.X
	case *ssa.MapUpdate:
		return x.Map
	}
	if c := callOf(in); c != nil && len(c.Args) > 0 {
		return c.Args[0]
	}
	return nil
}

// reachesReturnAvoiding: a return is reachable from `from` without executing
// any of the barrier calls.
func reachesReturnAvoiding(from ssa.Instruction, barriers []*ssa.Call) bool {
	isBarrier := func(in ssa.Instruction) bool {
		for _, b := range barriers {
			if ssa.Instruction(b) == in {
				return true
			}
		}
		return false
	}
	seen := map[*ssa.BasicBlock]bool{}
	var walk func(b *ssa.BasicBlock, start int) bool
	walk = func(b *ssa.BasicBlock, start int) bool {
		for i := start; i < len(b.Instrs); i++ {
			if isBarrier(b.Instrs[i]) {
				return false
			}
			if _, ok := b.Instrs[i].(*ssa.Return); ok {
				return true
			}
		}
		for _, s := range b.Succs {
			if seen[s] {
				continue
			}
			seen[s] = true
			if walk(s, 0) {
				return true
			}
		}
		return false
	}
	return walk(from.Block(), instrIndex(from)+1)
}

// parentAccessesBetween: memory accesses of the spawner that may execute after
// some go statement and before Wait.
func parentAccessesBetween(fn *ssa.Function, after *ssa.Go, gos []*ssa.Go, waits []*ssa.Call) []cell {
	isWait := func(in ssa.Instruction) bool {
		for _, w := range waits {
			if ssa.Instruction(w) == in {
				return true
			}
		}
		return false
	}
	between := map[ssa.Instruction]bool{}
	seen := map[*ssa.BasicBlock]bool{}
	var walk func(b *ssa.BasicBlock, start int)
	walk = func(b *ssa.BasicBlock, start int) {
		for i := start; i < len(b.Instrs); i++ {
			if isWait(b.Instrs[i]) {
				return
			}
			between[b.Instrs[i]] = true
		}
		for _, s := range b.Succs {
			if !seen[s] {
				seen[s] = true
				walk(s, 0)
			}
		}
	}
	walk(after.Block(), instrIndex(after)+1)
	var out []cell
	for in := range between {
		var addr ssa.Value
		write := false
		switch x := in.(type) {
		case *ssa.Store:
			addr, write = x.Addr, true
		case *ssa.UnOp:
			if x.Op == token.MUL {
				addr = x.X
			}
		case *ssa.MapUpdate:
			addr, write = x.Map, true
		}
		if addr == nil || isSyncType(deref(addr.Type())) {
			continue
		}
		// a variable allocated inside the loop is fresh in every iteration:
		// initialising it before its own go statement is not a shared access
		if a, ok := rootAddr(addr).(*ssa.Alloc); ok && inCycle(a.Block()) && !throughLoad(addr) {
			fresh := true
			for _, g := range gos {
				if mc, ok := g.Call.Value.(*ssa.MakeClosure); ok {
					for _, bnd := range mc.Bindings {
						if unwrapLoad(bnd) == ssa.Value(a) && !dominatesInstr(in, g) {
							fresh = false
						}
					}
				}
			}
			if fresh {
				continue
			}
		}
		p, _ := cellPath(addr)
		out = append(out, cell{path: p, write: write, in: in, idxVals: indexValues(addr)})
	}
	return out
}

// sameIterationIndex: the spawner touches element X[v] with v the loop's
// induction value before starting this iteration's goroutine, and the goroutine
// touches X[i] with i its private copy of the same v: goroutines of earlier
// iterations own other elements, this iteration's one has not started yet.
func sameIterationIndex(parent, child cell, fc *fanClosure) bool {
	if !fc.inLoop || len(parent.idxVals) == 0 || len(child.idxVals) == 0 {
		return false
	}
	if parent.idxVals[0] != child.idxVals[0] || !inductionValue(parent.idxVals[0]) {
		return false
	}
	return dominatesInstr(parent.in, fc.goI)
}

// ---- C08.R6: shared data is read-only ---------------------------------------------

func c08R6(c *Ctx) {
	P := c.P
	E := NewEffects(P)
	// (a) JSON documents (map[string]any) are never updated in place: cached
	// documents are shared between goroutines
	nMaps := 0
	for _, fn := range P.Funcs {
		eachInstr(fn, func(_ *ssa.BasicBlock, _ int, in ssa.Instruction) {
			mu, ok := in.(*ssa.MapUpdate)
			if !ok {
				return
			}
			mt, ok := mu.Map.Type().Underlying().(*types.Map)
			if !ok {
				return
			}
			if b, ok := mt.Key().Underlying().(*types.Basic); !ok || b.Kind() != types.String {
				return
			}
			if _, isIface := mt.Elem().Underlying().(*types.Interface); !isIface {
				return
			}
			nMaps++
			_, fresh := mu.Map.(*ssa.MakeMap)
			if ct, ok := mu.Map.(*ssa.ChangeType); ok {
				_, fresh = ct.X.(*ssa.MakeMap)
			}
			c.check(fresh, FuncName(fn)+"/mapupdate", P.InstrPos(in), FuncName(fn),
				"update of a map literal under construction", "in-place update of a JSON document: cached documents are shared read-only between goroutines")
		})
	}
	// (b) package-level variables are written only by initialisers; nothing
	// reachable from config.Parsed is written outside package config's init chain
	initChain := map[*ssa.Function]bool{}
	for _, fn := range P.Funcs {
		if fn.Parent() == nil && (fn.Name() == "init" || strings.HasPrefix(fn.Name(), "init#")) {
			initChain[fn] = true
		}
	}
	// functions reachable only from initialisers
	changed := true
	for changed {
		changed = false
		for _, fn := range P.Funcs {
			if initChain[fn] || fn.Parent() != nil {
				continue
			}
			callers := P.Callers(fn)
			if len(callers) == 0 {
				continue
			}
			all := true
			for _, e := range callers {
				if !initChain[e.Caller.Func] {
					all = false
				}
			}
			if all {
				initChain[fn] = true
				changed = true
			}
		}
	}
	for _, fn := range P.Funcs {
		root := fn
		for root.Parent() != nil {
			root = root.Parent()
		}
		for _, w := range E.directWrites(fn) {
			for _, r := range E.Roots(w.addr) {
				if !strings.HasPrefix(r, "global:") {
					continue
				}
				name := strings.TrimPrefix(r, "global:")
				if !isServitorPath(strings.SplitN(name, ".", 2)[0]) && !strings.HasPrefix(name, "servitor") {
					continue
				}
				if isSyncType(deref(w.addr.Type())) {
					continue
				}
				c.check(initChain[root], FuncName(fn)+"/global-write:"+name, P.InstrPos(w.in), FuncName(fn),
					"package-level state written during initialisation only", "package-level state "+name+" (or memory reachable from it) is written after initialisation; it is read concurrently without synchronisation")
			}
		}
	}
	// writes through a parameter whose argument is reachable from a global
	for _, fn := range P.Funcs {
		root := fn
		for root.Parent() != nil {
			root = root.Parent()
		}
		eachInstr(fn, func(_ *ssa.BasicBlock, _ int, in ssa.Instruction) {
			ci, ok := in.(ssa.CallInstruction)
			if !ok {
				return
			}
			for _, callee := range P.Callees(ci) {
				for r := range E.Writes(callee) {
					if !strings.HasPrefix(r, "param:") {
						continue
					}
					for _, m := range E.mapRoot(fn, ci, callee, r) {
						if !strings.HasPrefix(m, "global:servitor") {
							continue
						}
						var k int
						fmt.Sscanf(r, "param:%d", &k)
						args := ci.Common().Args
						if k < len(args) && isSyncType(deref(args[k].Type())) {
							continue
						}
						name := strings.TrimPrefix(m, "global:")
						c.check(initChain[root], FuncName(fn)+"/global-write-via:"+FuncName(callee)+":"+name, P.InstrPos(in), FuncName(fn),
							"callee writes memory reachable from "+name+" during initialisation only",
							"passes memory reachable from package-level "+name+" to "+callee.String()+", which writes it, after initialisation")
					}
				}
			}
		})
	}
	// every servitor global accounted for
	nGlobals := 0
	for _, pkg := range P.Pkgs {
		sp := P.SSA.Package(pkg.Types)
		for _, m := range sp.Members {
			if g, ok := m.(*ssa.Global); ok && !strings.HasPrefix(g.Name(), "init$") {
				nGlobals++
				c.ok("global:"+g.String(), P.Pos(g.Pos()), "", "package-level variable; writers checked above")
			}
		}
	}
	c.info("json_map_updates", nMaps)
	c.info("globals", nGlobals)
	// (c) State.m and State.output are written once, before the State is shared
	for _, fld := range []string{"m", "output"} {
		f := P.Field("servitor/ui", "State", fld)
		for _, fn := range P.Funcs {
			eachInstr(fn, func(_ *ssa.BasicBlock, _ int, in ssa.Instruction) {
				st, ok := in.(*ssa.Store)
				if !ok {
					return
				}
				fa, ok := st.Addr.(*ssa.FieldAddr)
				if !ok || fieldOf(fa) != f {
					return
				}
				c.check(freshBase(fa.X), FuncName(fn)+"/store:State."+fld, P.InstrPos(in), FuncName(fn),
					"stored while the State is still private to its constructor", "State."+fld+" is reassigned after construction; it is read without the lock")
			})
		}
	}
}

// inlinedCells expresses the memory accesses of callee (called at site from
// fn) in fn's terms by substituting the callee's parameters with the call's
// arguments. ok=false when the callee does something that cannot be expressed
// this way (writes through values of unknown origin, or calls further servitor
// functions that write caller-visible memory and cannot themselves be inlined).
func inlinedCells(E *Effects, fn *ssa.Function, site ssa.CallInstruction, callee *ssa.Function, depth int) ([]cell, bool) {
	if depth > 2 || !E.P.IsServitorFunc(callee) || len(callee.Blocks) == 0 || callee.Parent() != nil {
		return nil, false
	}
	cc := site.Common()
	args := cc.Args
	if cc.IsInvoke() {
		return nil, false
	}
	if len(args) != len(callee.Params) {
		return nil, false
	}
	// substitution tables
	baseSub := map[string]string{}
	idxSub := map[string]string{}
	idxCellsOf := map[string][]*ssa.Alloc{}
	for i, p := range callee.Params {
		key := "param:" + callee.String() + ":" + p.Name()
		bp, _ := cellPath(args[i])
		baseSub[key] = bp
		var ic []*ssa.Alloc
		idxSub["@"+key] = idx(args[i], &ic)
		idxCellsOf["@"+key] = ic
	}
	var out []cell
	okAll := true
	add := func(addr ssa.Value, write bool, in ssa.Instruction) {
		root := rootAddr(addr)
		if a, ok := root.(*ssa.Alloc); ok && a.Parent() == callee && !throughLoad(addr) {
			return // callee-local
		}
		if isSyncType(deref(addr.Type())) {
			return
		}
		p, idxCells := cellPath(addr)
		per := false
		var cellsFromArgs []*ssa.Alloc
		for k, v := range idxSub {
			if strings.Contains(p, "["+k+"]") {
				p = strings.ReplaceAll(p, "["+k+"]", "["+v+"]")
				cellsFromArgs = append(cellsFromArgs, idxCellsOf[k]...)
			}
		}
		replaced := false
		for k, v := range baseSub {
			if strings.HasPrefix(p, k) {
				p = v + p[len(k):]
				replaced = true
			}
		}
		if !replaced && !strings.HasPrefix(p, "global:") {
			if strings.HasPrefix(p, "cell:"+callee.String()) {
				return // a local of the callee reached through a load: private
			}
			okAll = false
			return
		}
		for _, a := range append(idxCells, cellsFromArgs...) {
			if a.Parent() != fn {
				per = true
			}
		}
		var vals []ssa.Value
		allIdx := append(append([]*ssa.Alloc{}, idxCells...), cellsFromArgs...)
		for _, a := range allIdx {
			if sts := storesToAlloc(a); len(sts) == 1 {
				vals = append(vals, sts[0].Val)
			}
		}
		out = append(out, cell{path: p, perIter: per, write: write, in: site.(ssa.Instruction), idxVals: vals, idxCells: allIdx})
	}
	eachInstr(callee, func(_ *ssa.BasicBlock, _ int, in ssa.Instruction) {
		switch x := in.(type) {
		case *ssa.Store:
			add(x.Addr, true, in)
		case *ssa.UnOp:
			if x.Op == token.MUL {
				add(x.X, false, in)
			}
		case *ssa.MapUpdate:
			add(x.Map, true, in)
		case ssa.CallInstruction:
			c2 := x.Common()
			if b, ok := c2.Value.(*ssa.Builtin); ok && (b.Name() == "copy" || b.Name() == "delete" || b.Name() == "clear") {
				add(c2.Args[0], true, in)
			}
			for _, g2 := range E.P.Callees(x) {
				visible := false
				for r := range E.Writes(g2) {
					for _, m := range E.mapRoot(callee, x, g2, r) {
						if m != "local" && m != "unknown" {
							visible = true
						}
					}
				}
				if visible {
					okAll = false
				}
			}
		}
	})
	return out, okAll
}

// c08R8: the items of package pub (posts, actors, activities, collections,
// links, failures) are shared without a lock: between the pages of the history,
// between the loader goroutines, which call their methods outside State.m, and
// the renderer. That is only safe because an item is never written after its
// constructor has returned it. Every store into a field of an item type must
// therefore target the object that the enclosing constructor has just
// allocated (a fresh local of the outermost enclosing function, possibly
// captured by the constructor's own goroutines, which it joins before
// returning — R5). A method that assigns to its receiver, or a function that
// assigns through a pointer it was given, writes shared memory.
func c08R8(c *Ctx) {
	P := c.P
	itemTypes := map[string]bool{"Post": true, "Actor": true, "Activity": true, "Collection": true, "Link": true, "Failure": true}
	isItemPtr := func(t types.Type) (string, bool) {
		p, ok := t.Underlying().(*types.Pointer)
		if !ok {
			return "", false
		}
		n, ok := p.Elem().(*types.Named)
		if !ok || n.Obj().Pkg() == nil || n.Obj().Pkg().Path() != "servitor/pub" || !itemTypes[n.Obj().Name()] {
			return "", false
		}
		return n.Obj().Name(), true
	}
	n := 0
	for _, fn := range P.FuncsIn("servitor/pub") {
		fname := FuncName(fn)
		outer := fn
		for outer.Parent() != nil {
			outer = outer.Parent()
		}
		eachInstr(fn, func(_ *ssa.BasicBlock, _ int, in ssa.Instruction) {
			var addr ssa.Value
			switch x := in.(type) {
			case *ssa.Store:
				addr = x.Addr
			case *ssa.MapUpdate:
				addr = x.Map
			default:
				// a library call that writes through one of its arguments
				// (atomic.Pointer.Store, sync.Map.Store, json Decode into a field, …)
				cc := callOf(in)
				if cc == nil {
					return
				}
				args := cc.Args
				for _, k := range libWrites(cc) {
					if k < len(args) {
						addr = args[k]
					}
				}
				if addr == nil {
					return
				}
			}
			// the innermost item-typed object the address is a field of
			var obj ssa.Value
			tname := ""
			v := addr
			for i := 0; i < 16 && obj == nil; i++ {
				switch y := v.(type) {
				case *ssa.FieldAddr:
					if tn, ok := isItemPtr(y.X.Type()); ok {
						obj, tname = y.X, tn
					}
					v = y.X
				case *ssa.IndexAddr:
					v = y.X
				case *ssa.UnOp:
					if y.Op != token.MUL {
						i = 16
					}
					v = y.X
				default:
					i = 16
				}
			}
			if obj == nil {
				return
			}
			n++
			root := resolveCell(unwrapLoad(obj))
			if ld, ok := root.(*ssa.UnOp); ok && ld.Op == token.MUL {
				root = resolveCell(ld.X)
				if w := unwrapLoad(ld); w != ssa.Value(ld) {
					root = resolveCell(w)
				}
			}
			al, fresh := root.(*ssa.Alloc)
			okFresh := fresh && al.Parent() == outer && al.Heap
			if tn, isItem := isItemPtr(al2type(al)); okFresh && (!isItem || tn != tname) {
				okFresh = false
			}
			fld := ""
			if fa, ok := addr.(*ssa.FieldAddr); ok {
				fld = "." + fieldOf(fa).Name()
			}
			c.check(okFresh, fname+"/item-write:"+tname+fld, P.InstrPos(in), fname,
				"written while under construction (the object is a fresh allocation of the enclosing constructor)",
				"a "+tname+" that already exists (receiver, parameter or loaded pointer) is written: items are shared between pages, loader goroutines and the renderer without a lock, so a write after construction is a data race")
		})
	}
	c.info("item_field_writes", n)
}

func al2type(a *ssa.Alloc) types.Type {
	if a == nil {
		return types.Typ[types.Invalid]
	}
	return a.Type()
}

// c08R9: a background load is delivered to the page it was started for. The
// in-flight flags of ui.Page (its bool fields) are set before a goroutine is
// started and cleared by it; while a flag is set, the page is the goroutine's to
// extend. The page whose flag is set, the page whose flag is cleared, the page
// whose fields and feed the goroutine writes: all of them must be the very same
// value (the page captured when the load was started), not whatever page is
// current when the load completes — the user may have moved on in the meantime.
func c08R9(c *Ctx) {
	P := c.P
	pageT := P.NamedType("servitor/ui", "Page")
	if pageT == nil {
		c.bad("servitor/ui.Page", "ui", "servitor/ui", "type ui.Page not found")
		return
	}
	isPageField := func(fa *ssa.FieldAddr) bool {
		o := structOwner(fa)
		return o != nil && o.Obj() == pageT.Obj()
	}
	isFlag := func(fa *ssa.FieldAddr) bool {
		if !isPageField(fa) {
			return false
		}
		b, ok := fieldOf(fa).Type().Underlying().(*types.Basic)
		return ok && b.Kind() == types.Bool
	}
	boolConst := func(v ssa.Value) (bool, bool) {
		cst, ok := v.(*ssa.Const)
		if !ok || cst.Value == nil || cst.Value.Kind() != constant.Bool {
			return false, false
		}
		return constant.BoolVal(cst.Value), true
	}
	matchedClears := map[*ssa.Store]bool{}
	nSets := 0
	for _, fn := range P.FuncsIn("servitor/ui") {
		fname := FuncName(fn)
		eachInstr(fn, func(b *ssa.BasicBlock, idx int, in ssa.Instruction) {
			st, ok := in.(*ssa.Store)
			if !ok {
				return
			}
			fa, ok := st.Addr.(*ssa.FieldAddr)
			if !ok || !isFlag(fa) {
				return
			}
			val, isC := boolConst(st.Val)
			if !isC || !val {
				return
			}
			nSets++
			flag := fieldOf(fa)
			page := unwrapLoad(fa.X)
			// the goroutines started after the flag was set, in the same block
			var targets []*ssa.Function
			for _, later := range b.Instrs[idx+1:] {
				g, ok := later.(*ssa.Go)
				if !ok {
					continue
				}
				switch t := g.Call.Value.(type) {
				case *ssa.MakeClosure:
					if f, ok := t.Fn.(*ssa.Function); ok {
						targets = append(targets, f)
					}
				case *ssa.Function:
					targets = append(targets, t)
				}
			}
			if !c.check(len(targets) > 0, fname+"/in-flight:"+flag.Name()+"/started", P.InstrPos(st), fname, "the flag is set right before the goroutine that clears it is started", "the in-flight flag "+flag.Name()+" is set but no goroutine is started after it in the same block: nothing will clear it") {
				return
			}
			for _, g := range targets {
				gname := FuncName(g)
				cleared := false
				eachInstr(g, func(_ *ssa.BasicBlock, _ int, gin ssa.Instruction) {
					switch x := gin.(type) {
					case *ssa.Store:
						gfa, ok := x.Addr.(*ssa.FieldAddr)
						if !ok || !isPageField(gfa) {
							return
						}
						same := unwrapLoad(gfa.X) == page
						if fieldOf(gfa) == flag {
							if v, isC := boolConst(x.Val); isC && !v {
								cleared = true
								matchedClears[x] = true
								c.check(same, gname+"/in-flight:"+flag.Name()+"/cleared-on-own-page", P.InstrPos(x), gname, "clears the flag of the page the load was started for", "the load clears "+flag.Name()+" of another page than the one it was started for (the page that is current when the load completes): the page it was started for keeps its flag forever and never loads again")
								return
							}
						}
						c.check(same, gname+"/delivers:"+fieldOf(gfa).Name(), P.InstrPos(x), gname, "written on the page the load was started for", "the result of a background load is written to field "+fieldOf(gfa).Name()+" of another page than the one it was started for: if the user has moved on, the items end up on the wrong page")
					case *ssa.Call:
						sc := x.Call.StaticCallee()
						if sc == nil || sc.Pkg == nil || sc.Pkg.Pkg.Path() != "servitor/feed" || (sc.Name() != "Append" && sc.Name() != "Prepend") || len(x.Call.Args) == 0 {
							return
						}
						recv := x.Call.Args[0]
						same := false
						if ld, ok := recv.(*ssa.UnOp); ok && ld.Op == token.MUL {
							if rfa, ok := ld.X.(*ssa.FieldAddr); ok && isPageField(rfa) {
								same = unwrapLoad(rfa.X) == page
							}
						}
						c.check(same, gname+"/delivers:feed."+sc.Name(), P.InstrPos(x), gname, "extends the feed of the page the load was started for", "the items of a background load are added to the feed of another page than the one the load was started for")
					}
				})
				c.check(cleared, gname+"/in-flight:"+flag.Name()+"/cleared", P.Pos(g.Pos()), gname, "the goroutine clears the flag it was started under", "the goroutine started under the in-flight flag "+flag.Name()+" never clears it: the page stops loading in that direction")
			}
		})
	}
	// no stray clears
	for _, fn := range P.FuncsIn("servitor/ui") {
		eachInstr(fn, func(_ *ssa.BasicBlock, _ int, in ssa.Instruction) {
			st, ok := in.(*ssa.Store)
			if !ok || matchedClears[st] {
				return
			}
			fa, ok := st.Addr.(*ssa.FieldAddr)
			if !ok || !isFlag(fa) {
				return
			}
			if v, isC := boolConst(st.Val); isC && !v {
				c.bad(FuncName(fn)+"/in-flight:"+fieldOf(fa).Name()+"/stray-clear", P.InstrPos(st), FuncName(fn), "an in-flight flag is cleared outside the goroutine that was started under it")
			}
		})
	}
	c.info("in_flight_flags_set", nSets)
}

// c08R10: a package-level channel used as a counting semaphore (send to take a
// slot, receive to give it back) deadlocks as soon as the code that runs while
// a slot is held can need another slot of the same channel and there are as
// many holders as slots — nested fan-outs that share one budget (seed C08-2r8:
// sixteen item constructions each wait for an author fetch that can never get
// a slot; the first harvest runs under State.m, so the UI hangs). Reported:
// every function that sends on such a channel, receives from it later, and in
// between calls — or starts with `go` — something from which another send on
// the same channel is reachable. The pinned tree has no channel operation at
// all, so the rule has no instance there.
func c08R10(c *Ctx) {
	P := c.P
	chanOf := func(v ssa.Value) *ssa.Global {
		u, ok := v.(*ssa.UnOp)
		if !ok || u.Op != token.MUL {
			return nil
		}
		g, _ := u.X.(*ssa.Global)
		return g
	}
	// functions that take a slot of g, directly
	takes := map[*ssa.Global]map[*ssa.Function]bool{}
	for _, fn := range P.Funcs {
		eachInstr(fn, func(_ *ssa.BasicBlock, _ int, in ssa.Instruction) {
			if sd, ok := in.(*ssa.Send); ok {
				if g := chanOf(sd.Chan); g != nil {
					if takes[g] == nil {
						takes[g] = map[*ssa.Function]bool{}
					}
					takes[g][fn] = true
				}
			}
		})
	}
	n := 0
	for g, direct := range takes {
		// everything from which a take of g is reachable (calls, go statements, closures made)
		reach := map[*ssa.Function]bool{}
		for fn := range direct {
			reach[fn] = true
		}
		for changed := true; changed; {
			changed = false
			for _, fn := range P.Funcs {
				if reach[fn] {
					continue
				}
				eachInstr(fn, func(_ *ssa.BasicBlock, _ int, in ssa.Instruction) {
					if reach[fn] {
						return
					}
					if ci, ok := in.(ssa.CallInstruction); ok {
						for _, callee := range P.Callees(ci) {
							if reach[callee] {
								reach[fn], changed = true, true
							}
						}
					}
					if mc, ok := in.(*ssa.MakeClosure); ok && reach[mc.Fn.(*ssa.Function)] {
						reach[fn], changed = true, true
					}
				})
			}
		}
		for fn := range direct {
			fname := FuncName(fn)
			// between a send and a later receive on g in this function
			eachInstr(fn, func(b *ssa.BasicBlock, _ int, in ssa.Instruction) {
				sd, ok := in.(*ssa.Send)
				if !ok || chanOf(sd.Chan) != g {
					return
				}
				n++
				var culprit ssa.Instruction
				eachInstr(fn, func(b2 *ssa.BasicBlock, _ int, in2 ssa.Instruction) {
					if culprit != nil || in2 == in || !dominatesInstr(in, in2) {
						return
					}
					// still held here: some receive on g comes after in2, or the slot is given
					// back by a deferred call (held until the function returns)
					held := false
					eachInstr(fn, func(_ *ssa.BasicBlock, _ int, in3 ssa.Instruction) {
						d, ok := in3.(*ssa.Defer)
						if !ok {
							return
						}
						var df *ssa.Function
						if mc, ok := d.Call.Value.(*ssa.MakeClosure); ok {
							df, _ = mc.Fn.(*ssa.Function)
						} else {
							df = d.Call.StaticCallee()
						}
						if df == nil {
							return
						}
						eachInstr(df, func(_ *ssa.BasicBlock, _ int, in4 ssa.Instruction) {
							if u, ok := in4.(*ssa.UnOp); ok && u.Op == token.ARROW && chanOf(u.X) == g {
								held = true
							}
						})
					})
					eachInstr(fn, func(_ *ssa.BasicBlock, _ int, in3 ssa.Instruction) {
						if u, ok := in3.(*ssa.UnOp); ok && u.Op == token.ARROW && chanOf(u.X) == g && (dominatesInstr(in2, in3) || blockReaches(in2.Block(), in3.Block())) {
							held = true
						}
					})
					if !held {
						return
					}
					if ci, ok := in2.(ssa.CallInstruction); ok {
						for _, callee := range P.Callees(ci) {
							if reach[callee] {
								culprit = in2
							}
						}
						// a function value handed in: whatever the callers pass
						if len(P.Callees(ci)) == 0 && ci.Common().StaticCallee() == nil && !ci.Common().IsInvoke() {
							culprit = in2
						}
					}
				})
				c.check(culprit == nil, fname+"/slot-held:"+g.Name(), P.InstrPos(in), fname, "nothing that runs while the slot is held needs another slot",
					"a slot of the bounded channel "+g.Name()+" is held across "+describeInstrOpt(P, culprit)+", from which another send on the same channel is reachable: with every slot held by a waiter the program deadlocks (the first harvest runs under the UI lock)")
			})
		}
	}
	c.info("semaphore_takes", n)
}

func describeInstrOpt(P *Program, in ssa.Instruction) string {
	if in == nil {
		return "nothing"
	}
	return describeInstr(P, in)
}

// lenAddCovers: add is `wg.Add(len(xs))` (possibly converted) outside any
// loop; returned are the go statements that sit in a range loop over the same
// xs which the Add dominates and in which every trip passes the go statement
// (its block dominates every source of a back edge of the loop). One Done per
// element is then owed, as with an Add(1) per trip.
func lenAddCovers(add *ssa.Call, closures []*fanClosure) []*fanClosure {
	v := add.Call.Args[1]
	for d := 0; d < 3; d++ {
		if cv, ok := v.(*ssa.Convert); ok {
			v = cv.X
		}
	}
	lc, ok := v.(*ssa.Call)
	if !ok {
		return nil
	}
	bi, ok := lc.Call.Value.(*ssa.Builtin)
	if !ok || bi.Name() != "len" {
		return nil
	}
	xs := path(lc.Call.Args[0])
	var out []*fanClosure
	for _, fc := range closures {
		if !fc.inLoop || !dominatesInstr(add, fc.goI) {
			continue
		}
		gb := fc.goI.Block()
		fn := gb.Parent()
		// the innermost loop around the go statement
		var head *ssa.BasicBlock
		var sources []*ssa.BasicBlock
		size := -1
		for _, h := range fn.Blocks {
			var ts []*ssa.BasicBlock
			body := map[*ssa.BasicBlock]bool{h: true}
			for _, t := range h.Preds {
				if !h.Dominates(t) {
					continue
				}
				ts = append(ts, t)
				work := []*ssa.BasicBlock{t}
				for len(work) > 0 {
					b := work[len(work)-1]
					work = work[:len(work)-1]
					if body[b] {
						continue
					}
					body[b] = true
					work = append(work, b.Preds...)
				}
			}
			if len(ts) > 0 && body[gb] && (size < 0 || len(body) < size) {
				head, sources, size = h, ts, len(body)
			}
		}
		if head == nil {
			continue
		}
		every := true
		for _, t := range sources {
			if !gb.Dominates(t) {
				every = false
			}
		}
		// the loop ranges over xs: its head compares the range index with len(xs)
		ranges := false
		for _, in := range head.Instrs {
			if c2, ok := in.(*ssa.Call); ok {
				if b2, ok := c2.Call.Value.(*ssa.Builtin); ok && b2.Name() == "len" && path(c2.Call.Args[0]) == xs {
					ranges = true
				}
			}
		}
		for _, p := range head.Preds {
			if head.Dominates(p) {
				continue
			}
			for _, in := range p.Instrs {
				if c2, ok := in.(*ssa.Call); ok {
					if b2, ok := c2.Call.Value.(*ssa.Builtin); ok && b2.Name() == "len" && path(c2.Call.Args[0]) == xs {
						ranges = true // `for range xs` evaluates len(xs) once, in front of the loop
					}
				}
			}
		}
		if every && ranges {
			out = append(out, fc)
		}
	}
	return out
}
