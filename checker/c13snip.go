package main

import (
	"fmt"
	"go/token"
	"go/types"
	"sort"
	"strings"

	"golang.org/x/tools/go/ssa"
)

// The second shape of ansi.Snip that C13.R7 understands: the index of the last
// line to keep is computed first and a loop walks UP to it, appending.
//
// (a) On entry the index is 0 and nothing is kept. (b) Every trip appends
// exactly collapse(expand(lines[i])) — possibly without its tail — BEHIND what
// was kept, and adds one to the index: the kept lines are lines[0..i-1], in
// order, without gaps. (c) A trip is only made while i <= B for a bound B that
// does not change in the loop and of which every path to the loop knows B <
// height and B < len(lines): at most `height` lines are kept. Where B comes
// from a helper of the package (`lastVisibleLine(lines[:height])`), the helper
// is summarised: all its results are below the length of its argument
// (resultBelowLen).

func c13SnipRunsForward(P *Program, fn *ssa.Function, H *ssa.BasicBlock, idx *ssa.Phi) bool {
	if idx == nil {
		return false
	}
	for k, p := range H.Preds {
		if !H.Dominates(p) {
			continue
		}
		b, ok := idx.Edges[k].(*ssa.BinOp)
		if !ok || b.X != ssa.Value(idx) {
			return false
		}
		if n, ok := constInt(b.Y); !ok || !(b.Op == token.ADD && n > 0 || b.Op == token.SUB && n < 0) {
			return false
		}
	}
	return true
}

func c13SnipForward(c *Ctx, fn *ssa.Function, H, entry *ssa.BasicBlock, idx, kept *ssa.Phi, lines, height ssa.Value, lineOfTrip func(*lcPath, ssa.Value, linForm) (bool, string)) {
	P := c.P
	fname := FuncName(fn)
	pos := P.Pos(fn.Pos())
	edgeOf := func(ph *ssa.Phi, from *ssa.BasicBlock) ssa.Value {
		for k, p := range H.Preds {
			if p == from {
				return ph.Edges[k]
			}
		}
		return nil
	}
	// the bound: H ends in `if i <= B` / `if i < B` (or mirrored), B defined outside the loop
	var bound ssa.Value
	strict := false
	if iff, ok := H.Instrs[len(H.Instrs)-1].(*ssa.If); ok && len(H.Succs) == 2 && H.Dominates(H.Succs[0]) {
		if cmp, ok := iff.Cond.(*ssa.BinOp); ok {
			switch {
			case cmp.X == ssa.Value(idx) && (cmp.Op == token.LEQ || cmp.Op == token.LSS):
				bound, strict = cmp.Y, cmp.Op == token.LSS
			case cmp.Y == ssa.Value(idx) && (cmp.Op == token.GEQ || cmp.Op == token.GTR):
				bound, strict = cmp.X, cmp.Op == token.GTR
			}
		}
	}
	if bound != nil {
		if in, ok := bound.(ssa.Instruction); ok && in.Block() != nil && H.Dominates(in.Block()) {
			bound = nil // recomputed in the loop
		}
	}
	if !c.check(bound != nil, fname+"/snip-bound", pos, fname, "the walk runs while the index is at most a bound fixed before the loop", "Snip: the loop that walks up the lines is not guarded by `i <= B` for a bound B fixed before the loop: that at most `height` lines are returned cannot be established") {
		return
	}
	summaries := map[*ssa.Function]bool{}
	install := func(lc *lcPath) {
		seen := map[*ssa.Call]bool{}
		lc.summary = func(call *ssa.Call) (linForm, bool) {
			f := call.Call.StaticCallee()
			if f == nil || f.Pkg != fn.Pkg || len(call.Call.Args) != 1 {
				return linForm{}, false
			}
			ok, done := summaries[f]
			if !done {
				ok = resultBelowLen(P, f)
				summaries[f] = ok
			}
			if !ok {
				return linForm{}, false
			}
			r := newLin()
			r.coef[normSym(call)] = 1
			if !seen[call] {
				seen[call] = true
				n, _ := lc.slice(call.Call.Args[0])
				g := n.add(r, -1)
				g.c--
				lc.assume(g) // result <= len(argument) - 1
			}
			return r, true
		}
	}
	// (a), (c) on entry
	entryPaths, complete := enumeratePaths(fn, H, 256)
	okEntry := complete && len(entryPaths) > 0
	whyEntry := "the paths to the loop could not be enumerated"
	for _, pf := range entryPaths {
		if len(pf.blocks) < 2 || pf.blocks[len(pf.blocks)-2] != entry {
			continue
		}
		lc := newLcPath(P, fn, pf)
		install(lc)
		lc.opaqueLoops(H)
		lc.useFacts()
		i0 := lc.num(edgeOf(idx, entry))
		k0, okK := lenOfSlice(lc, edgeOf(kept, entry), 0)
		B := lc.num(bound)
		if strict {
			B.c--
		}
		hgt := lc.num(height)
		nLines, _ := lc.slice(lines)
		// make([]T, n, height) before the loop: height is not negative here, or it panicked
		for _, b := range pf.blocks[:len(pf.blocks)-1] {
			for _, in := range b.Instrs {
				if mk, ok := in.(*ssa.MakeSlice); ok {
					lc.assume(lc.num(mk.Len))
					lc.assume(lc.num(mk.Cap).add(lc.num(mk.Len), -1))
				}
			}
		}
		switch {
		case !okK || !lc.proveEq(k0):
			okEntry, whyEntry = false, "something is kept before the loop starts"
		case !lc.proveEq(i0):
			okEntry, whyEntry = false, "the walk up the lines does not start at the first line (at "+i0.String()+")"
		case !lc.nonNeg(lcGE(hgt.add(B, -1), 1)):
			okEntry, whyEntry = false, "the last index of the walk ("+B.String()+") is not known to be below `height`: more than `height` lines can be returned"
		case !lc.nonNeg(lcGE(nLines.add(B, -1), 1)):
			okEntry, whyEntry = false, "the last index of the walk ("+B.String()+") can be beyond the last line"
		}
	}
	c.check(okEntry, fname+"/snip-entry", pos, fname, "the walk starts at line 0 with nothing kept and ends below min(len(lines), height)", "Snip: "+whyEntry)
	// (b) round the loop
	loopPaths, complete := enumeratePathsFrom(fn, H, H, 1024)
	if !c.check(complete && len(loopPaths) > 0, fname+"/snip-paths", pos, fname, fmt.Sprintf("%d paths round the loop", len(loopPaths)), "the paths round Snip's loop could not be enumerated") {
		return
	}
	for pi, pf := range loopPaths {
		blocks := pf.blocks[:len(pf.blocks)-1]
		last := blocks[len(blocks)-1]
		lc := newLcPath(P, fn, pathFacts{blocks: blocks, facts: pf.facts})
		lc.useFacts()
		where := "path through lines " + pathLines(P, pf)
		i1 := lc.num(edgeOf(idx, last))
		iPre := lc.num(idx)
		stepOK := lc.proveEq(i1.add(iPre, -1).add(linConst(1), -1)) // i' = i + 1
		newKept := lc.at(edgeOf(kept, last))
		shapeOK, why := true, ""
		call, ok := newKept.(*ssa.Call)
		b, isB := (*ssa.Builtin)(nil), false
		if ok {
			b, isB = call.Call.Value.(*ssa.Builtin)
		}
		switch {
		case newKept == ssa.Value(kept):
			shapeOK, why = false, "a line is skipped while the index moves on: the result has a gap"
		case !ok || !isB || b.Name() != "append" || lc.at(call.Call.Args[0]) != ssa.Value(kept):
			shapeOK, why = false, "the new line is not put BEHIND what was kept before (the index runs upwards, so new lines belong at the end)"
		default:
			if elems, okE := variadicElements(call.Call.Args[1]); !okE || len(elems) != 1 {
				shapeOK, why = false, "not exactly one line is added"
			} else {
				shapeOK, why = lineOfTrip(lc, elems[0], iPre)
			}
		}
		c.check(stepOK && shapeOK, fmt.Sprintf("%s/snip-trip#%d", fname, pi), pos, fname, "the index rises by one; lines[i] goes behind the kept lines ("+where+")", "Snip: "+map[bool]string{true: why, false: "the index does not rise by exactly one"}[stepOK]+" ("+where+")")
	}
}

// resultBelowLen: f(xs []T) int, and every result is at most len(xs)-1. Decided
// per return: on every path to it that starts at the entry or at the head of
// the loop it is in (whose counters are then only known through their
// monotonicity: a counter that only drops is at most its initial value, one
// that only rises at least), len(xs) - 1 - result >= 0 follows from the branch
// facts.
func resultBelowLen(P *Program, f *ssa.Function) bool {
	if len(f.Blocks) == 0 || len(f.Params) != 1 || f.Signature.Results().Len() != 1 || !isInteger(f.Signature.Results().At(0).Type()) {
		return false
	}
	if _, ok := f.Params[0].Type().Underlying().(*types.Slice); !ok {
		return false
	}
	isHead := loopHeads(f)
	prove := func(pf pathFacts, ret *ssa.Return) bool {
		lc := newLcPath(P, f, pf)
		lc.opaque = isHead
		if h := pf.blocks[0]; isHead[h] {
			lc.assumeMonotone(h)
		}
		lc.useFacts()
		n, _ := lc.slice(f.Params[0])
		g := n.add(lc.num(ret.Results[0]), -1)
		g.c--
		return lc.nonNeg(g)
	}
	nRet := 0
	for _, b := range f.Blocks {
		ret, ok := b.Instrs[len(b.Instrs)-1].(*ssa.Return)
		if !ok {
			continue
		}
		nRet++
		starts := []*ssa.BasicBlock{f.Blocks[0]}
		for h := range isHead {
			starts = append(starts, h)
		}
		for _, st := range starts {
			paths, complete := enumeratePathsFrom(f, st, b, 256)
			if !complete {
				return false
			}
			for _, pf := range paths {
				inner := false
				for _, pb := range pf.blocks[1:] {
					if isHead[pb] {
						inner = true // covered by the paths that start at that head
					}
				}
				if inner {
					continue
				}
				if !prove(pf, ret) {
					return false
				}
			}
		}
	}
	return nRet > 0
}

// c13SnipWidth: "each [line] within the width … plus an ellipsis". The lines
// Snip keeps are lines of its input; the only thing it adds is the ellipsis
// behind the last one, and it makes room for it by cutting the last match off a
// last line that is exactly `width` wide. The structural part: whatever the
// append of the ellipsis is conditioned on is also known where that cut is
// decided — every branch fact at the append (other than facts about the kept
// lines themselves) is a branch fact, with the same truth, at the cut — and a
// flag among them that is carried round the loop is not changed any more once
// a line has been kept. Then "ellipsis appended" implies "a full-width last
// line was cut". Seed C13-1r9 conditions the cut on `len(lines) > height` and
// the append on `len(snipped) < len(lines)`: a text that ends in blank lines
// gets the ellipsis behind an uncut full-width line.
func c13SnipWidth(c *Ctx, fn *ssa.Function, H *ssa.BasicBlock, kept *ssa.Phi, ellipsis, width ssa.Value) {
	P := c.P
	fname := FuncName(fn)
	pos := P.Pos(fn.Pos())
	// the append of the ellipsis
	var appendAt *ssa.BasicBlock
	eachInstr(fn, func(b *ssa.BasicBlock, _ int, in ssa.Instruction) {
		if bo, ok := in.(*ssa.BinOp); ok && bo.Op == token.ADD && unwrapLoad(bo.Y) == ellipsis {
			appendAt = b
		}
	})
	if appendAt == nil {
		c.note(fname+"/snip-width", pos, fname, "Snip never appends the ellipsis")
		return
	}
	// the cut: a slice of the matches of a line that drops its tail
	var cutAt *ssa.BasicBlock
	eachInstr(fn, func(b *ssa.BasicBlock, _ int, in ssa.Instruction) {
		if sl, ok := in.(*ssa.Slice); ok && sl.Low == nil && sl.High != nil && H.Dominates(b) {
			if _, isSl := sl.X.Type().Underlying().(*types.Slice); isSl && !isStringType(sl.X.Type()) {
				if _, ofStrings := sl.X.Type().Underlying().(*types.Slice).Elem().Underlying().(*types.Slice); ofStrings {
					cutAt = b
				}
			}
		}
	})
	if !c.check(cutAt != nil, fname+"/snip-width-cut", pos, fname, "a full-width last line is cut to make room for the ellipsis", "Snip appends the ellipsis but never cuts a line to make room for it: a last line that fills the width becomes one character too wide") {
		return
	}
	type fk struct {
		v     ssa.Value
		truth bool
	}
	cutFacts := map[fk]bool{}
	widthEq := false
	for _, f := range factsOf(fn).At(cutAt) {
		cutFacts[fk{f.Cond, f.Truth}] = true
		if cmp, ok := f.Cmp(); ok && cmp.Op == token.EQL && (unwrapLoad(cmp.Y) == width || unwrapLoad(cmp.X) == width) {
			widthEq = true
		}
	}
	c.check(widthEq, fname+"/snip-width-guard", P.Pos(cutAt.Instrs[0].Pos()), fname, "the cut is made where the line is exactly `width` wide", "the cut that makes room for the ellipsis is not tied to the line being exactly `width` wide")
	var missing []string
	aboutIndex := func(v ssa.Value) bool {
		bo, ok := v.(*ssa.BinOp)
		if !ok {
			return false
		}
		for _, side := range []ssa.Value{bo.X, bo.Y} {
			if ph, ok := unwrapLoad(side).(*ssa.Phi); ok && ph.Block() == H && isInteger(ph.Type()) {
				return true
			}
		}
		return false
	}
	for _, f := range factsOf(fn).At(appendAt) {
		if aboutIndex(f.Cond) {
			continue // the walk has ended: says nothing about what was left out
		}
		if !cutFacts[fk{f.Cond, f.Truth}] {
			missing = append(missing, fmt.Sprintf("%s is %v", trimPkg(path(f.Cond)), f.Truth))
			continue
		}
		// a flag carried round the loop: frozen once a line has been kept
		if ph, ok := f.Cond.(*ssa.Phi); ok && ph.Block() == H {
			loopPaths, complete := enumeratePathsFrom(fn, H, H, 1024)
			if !complete {
				missing = append(missing, "the flag's history cannot be followed")
				continue
			}
			for _, pf := range loopPaths {
				blocks := pf.blocks[:len(pf.blocks)-1]
				last := blocks[len(blocks)-1]
				lc := newLcPath(P, fn, pathFacts{blocks: blocks, facts: pf.facts})
				var keptEdge, flagEdge ssa.Value
				for k, p := range H.Preds {
					if p == last {
						keptEdge, flagEdge = kept.Edges[k], ph.Edges[k]
					}
				}
				grown := keptEdge != nil && lc.at(keptEdge) != ssa.Value(kept)
				if grown && flagEdge != nil && lc.at(flagEdge) != ssa.Value(ph) {
					missing = append(missing, "the flag changes on a trip that keeps a line (path through lines "+pathLines(P, pf)+")")
				}
			}
		}
	}
	sort.Strings(missing)
	c.check(len(missing) == 0, fname+"/snip-width", P.Pos(appendAt.Instrs[0].Pos()), fname, "what the ellipsis is appended under is known where the full-width last line is cut",
		"the ellipsis is appended under a condition that the cut of a full-width last line does not know ("+strings.Join(missing, "; ")+"): the last line can end up one character wider than the width")
}
