package main

import (
	"fmt"
	"go/constant"
	"go/token"
	"go/types"
	"sort"
	"strings"

	"golang.org/x/tools/go/ssa"
)

// The second shape of ansi.Snip that C13.R7 understands: the index of the last
// line to keep is computed first and a loop walks UP to it, appending.
//
// (a) On entry the index is 0 and nothing is kept. (b) Every trip appends
// exactly collapse(expand(lines[i])) — possibly without its tail — BEHIND what
// was kept, and adds one to the index: the kept lines are lines[0..i-1], in
// order, without gaps. (c) A trip is only made while i <= B for a bound B that
// does not change in the loop and of which every path to the loop knows B <
// height and B < len(lines): at most `height` lines are kept. Where B comes
// from a helper of the package (`lastVisibleLine(lines[:height])`), the helper
// is summarised: all its results are below the length of its argument
// (resultBelowLen).

func c13SnipRunsForward(P *Program, fn *ssa.Function, H *ssa.BasicBlock, idx *ssa.Phi) bool {
	if idx == nil {
		return false
	}
	for k, p := range H.Preds {
		if !H.Dominates(p) {
			continue
		}
		b, ok := idx.Edges[k].(*ssa.BinOp)
		if !ok || b.X != ssa.Value(idx) {
			return false
		}
		if n, ok := constInt(b.Y); !ok || !(b.Op == token.ADD && n > 0 || b.Op == token.SUB && n < 0) {
			return false
		}
	}
	return true
}

func c13SnipForward(c *Ctx, fn *ssa.Function, H, entry *ssa.BasicBlock, idx, kept *ssa.Phi, lines, height ssa.Value, lineOfTrip func(*lcPath, ssa.Value, linForm) (bool, string)) {
	P := c.P
	fname := FuncName(fn)
	pos := P.Pos(fn.Pos())
	edgeOf := func(ph *ssa.Phi, from *ssa.BasicBlock) ssa.Value {
		for k, p := range H.Preds {
			if p == from {
				return ph.Edges[k]
			}
		}
		return nil
	}
	// the bound: H ends in `if i <= B` / `if i < B` (or mirrored), B defined outside the loop
	var bound ssa.Value
	strict := false
	if iff, ok := H.Instrs[len(H.Instrs)-1].(*ssa.If); ok && len(H.Succs) == 2 && H.Dominates(H.Succs[0]) {
		if cmp, ok := iff.Cond.(*ssa.BinOp); ok {
			switch {
			case cmp.X == ssa.Value(idx) && (cmp.Op == token.LEQ || cmp.Op == token.LSS):
				bound, strict = cmp.Y, cmp.Op == token.LSS
			case cmp.Y == ssa.Value(idx) && (cmp.Op == token.GEQ || cmp.Op == token.GTR):
				bound, strict = cmp.X, cmp.Op == token.GTR
			}
		}
	}
	if bound != nil {
		if in, ok := bound.(ssa.Instruction); ok && in.Block() != nil && H.Dominates(in.Block()) {
			bound = nil // recomputed in the loop
		}
	}
	if !c.check(bound != nil, fname+"/snip-bound", pos, fname, "the walk runs while the index is at most a bound fixed before the loop", "Snip: the loop that walks up the lines is not guarded by `i <= B` for a bound B fixed before the loop: that at most `height` lines are returned cannot be established") {
		return
	}
	summaries := map[*ssa.Function]bool{}
	install := func(lc *lcPath) {
		seen := map[*ssa.Call]bool{}
		lc.summary = func(call *ssa.Call) (linForm, bool) {
			f := call.Call.StaticCallee()
			if f == nil || f.Pkg != fn.Pkg || len(call.Call.Args) != 1 {
				return linForm{}, false
			}
			ok, done := summaries[f]
			if !done {
				ok = resultBelowLen(P, f)
				summaries[f] = ok
			}
			if !ok {
				return linForm{}, false
			}
			r := newLin()
			r.coef[normSym(call)] = 1
			if !seen[call] {
				seen[call] = true
				n, _ := lc.slice(call.Call.Args[0])
				g := n.add(r, -1)
				g.c--
				lc.assume(g) // result <= len(argument) - 1
			}
			return r, true
		}
	}
	// (a), (c) on entry
	entryPaths, complete := enumeratePaths(fn, H, 256)
	okEntry := complete && len(entryPaths) > 0
	whyEntry := "the paths to the loop could not be enumerated"
	for _, pf := range entryPaths {
		if len(pf.blocks) < 2 || pf.blocks[len(pf.blocks)-2] != entry {
			continue
		}
		lc := newLcPath(P, fn, pf)
		install(lc)
		lc.opaqueLoops(H)
		lc.useFacts()
		i0 := lc.num(edgeOf(idx, entry))
		k0, okK := lenOfSlice(lc, edgeOf(kept, entry), 0)
		B := lc.num(bound)
		if strict {
			B.c--
		}
		hgt := lc.num(height)
		nLines, _ := lc.slice(lines)
		// make([]T, n, height) before the loop: height is not negative here, or it panicked
		for _, b := range pf.blocks[:len(pf.blocks)-1] {
			for _, in := range b.Instrs {
				if mk, ok := in.(*ssa.MakeSlice); ok {
					lc.assume(lc.num(mk.Len))
					lc.assume(lc.num(mk.Cap).add(lc.num(mk.Len), -1))
				}
			}
		}
		switch {
		case !okK || !lc.proveEq(k0):
			okEntry, whyEntry = false, "something is kept before the loop starts"
		case !lc.proveEq(i0):
			okEntry, whyEntry = false, "the walk up the lines does not start at the first line (at "+i0.String()+")"
		case !lc.nonNeg(lcGE(hgt.add(B, -1), 1)):
			okEntry, whyEntry = false, "the last index of the walk ("+B.String()+") is not known to be below `height`: more than `height` lines can be returned"
		case !lc.nonNeg(lcGE(nLines.add(B, -1), 1)):
			okEntry, whyEntry = false, "the last index of the walk ("+B.String()+") can be beyond the last line"
		}
	}
	c.check(okEntry, fname+"/snip-entry", pos, fname, "the walk starts at line 0 with nothing kept and ends below min(len(lines), height)", "Snip: "+whyEntry)
	// (b) round the loop
	loopPaths, complete := enumeratePathsFrom(fn, H, H, 1024)
	if !c.check(complete && len(loopPaths) > 0, fname+"/snip-paths", pos, fname, fmt.Sprintf("%d paths round the loop", len(loopPaths)), "the paths round Snip's loop could not be enumerated") {
		return
	}
	for pi, pf := range loopPaths {
		blocks := pf.blocks[:len(pf.blocks)-1]
		last := blocks[len(blocks)-1]
		lc := newLcPath(P, fn, pathFacts{blocks: blocks, facts: pf.facts})
		lc.useFacts()
		where := "path through lines " + pathLines(P, pf)
		i1 := lc.num(edgeOf(idx, last))
		iPre := lc.num(idx)
		stepOK := lc.proveEq(i1.add(iPre, -1).add(linConst(1), -1)) // i' = i + 1
		newKept := lc.at(edgeOf(kept, last))
		shapeOK, why := true, ""
		call, ok := newKept.(*ssa.Call)
		b, isB := (*ssa.Builtin)(nil), false
		if ok {
			b, isB = call.Call.Value.(*ssa.Builtin)
		}
		switch {
		case newKept == ssa.Value(kept):
			shapeOK, why = false, "a line is skipped while the index moves on: the result has a gap"
		case !ok || !isB || b.Name() != "append" || lc.at(call.Call.Args[0]) != ssa.Value(kept):
			shapeOK, why = false, "the new line is not put BEHIND what was kept before (the index runs upwards, so new lines belong at the end)"
		default:
			if elems, okE := variadicElements(call.Call.Args[1]); !okE || len(elems) != 1 {
				shapeOK, why = false, "not exactly one line is added"
			} else {
				shapeOK, why = lineOfTrip(lc, elems[0], iPre)
			}
		}
		c.check(stepOK && shapeOK, fmt.Sprintf("%s/snip-trip#%d", fname, pi), pos, fname, "the index rises by one; lines[i] goes behind the kept lines ("+where+")", "Snip: "+map[bool]string{true: why, false: "the index does not rise by exactly one"}[stepOK]+" ("+where+")")
	}
}

// resultBelowLen: f(xs []T) int, and every result is at most len(xs)-1. Decided
// per return: on every path to it that starts at the entry or at the head of
// the loop it is in (whose counters are then only known through their
// monotonicity: a counter that only drops is at most its initial value, one
// that only rises at least), len(xs) - 1 - result >= 0 follows from the branch
// facts.
func resultBelowLen(P *Program, f *ssa.Function) bool {
	if len(f.Blocks) == 0 || len(f.Params) != 1 || f.Signature.Results().Len() != 1 || !isInteger(f.Signature.Results().At(0).Type()) {
		return false
	}
	if _, ok := f.Params[0].Type().Underlying().(*types.Slice); !ok {
		return false
	}
	isHead := loopHeads(f)
	prove := func(pf pathFacts, ret *ssa.Return) bool {
		lc := newLcPath(P, f, pf)
		lc.opaque = isHead
		if h := pf.blocks[0]; isHead[h] {
			lc.assumeMonotone(h)
		}
		lc.useFacts()
		n, _ := lc.slice(f.Params[0])
		g := n.add(lc.num(ret.Results[0]), -1)
		g.c--
		return lc.nonNeg(g)
	}
	nRet := 0
	for _, b := range f.Blocks {
		ret, ok := b.Instrs[len(b.Instrs)-1].(*ssa.Return)
		if !ok {
			continue
		}
		nRet++
		starts := []*ssa.BasicBlock{f.Blocks[0]}
		for h := range isHead {
			starts = append(starts, h)
		}
		for _, st := range starts {
			paths, complete := enumeratePathsFrom(f, st, b, 256)
			if !complete {
				return false
			}
			for _, pf := range paths {
				inner := false
				for _, pb := range pf.blocks[1:] {
					if isHead[pb] {
						inner = true // covered by the paths that start at that head
					}
				}
				if inner {
					continue
				}
				if !prove(pf, ret) {
					return false
				}
			}
		}
	}
	return nRet > 0
}

// c13SnipWidth: "each [line] within the width … plus an ellipsis". The lines
// Snip keeps are lines of its input; the only thing it adds is the ellipsis
// behind the last one, and it makes room for it by cutting the last match off a
// last line that is exactly `width` wide. The structural part: whatever the
// append of the ellipsis is conditioned on is also known where that cut is
// decided — every branch fact at the append (other than facts about the kept
// lines themselves) is a branch fact, with the same truth, at the cut — and a
// flag among them that is carried round the loop is not changed any more once
// a line has been kept. Then "ellipsis appended" implies "a full-width last
// line was cut". Seed C13-1r9 conditions the cut on `len(lines) > height` and
// the append on `len(snipped) < len(lines)`: a text that ends in blank lines
// gets the ellipsis behind an uncut full-width line.
func c13SnipWidth(c *Ctx, fn *ssa.Function, H *ssa.BasicBlock, kept *ssa.Phi, ellipsis, width ssa.Value) {
	P := c.P
	fname := FuncName(fn)
	pos := P.Pos(fn.Pos())
	// the append of the ellipsis
	var appendAt *ssa.BasicBlock
	eachInstr(fn, func(b *ssa.BasicBlock, _ int, in ssa.Instruction) {
		if bo, ok := in.(*ssa.BinOp); ok && bo.Op == token.ADD && unwrapLoad(bo.Y) == ellipsis {
			appendAt = b
		}
	})
	if appendAt == nil {
		c.note(fname+"/snip-width", pos, fname, "Snip never appends the ellipsis")
		return
	}
	// the cut: a slice of the matches of a line that drops its tail
	var cutAt *ssa.BasicBlock
	eachInstr(fn, func(b *ssa.BasicBlock, _ int, in ssa.Instruction) {
		if sl, ok := in.(*ssa.Slice); ok && sl.Low == nil && sl.High != nil && H.Dominates(b) {
			if _, isSl := sl.X.Type().Underlying().(*types.Slice); isSl && !isStringType(sl.X.Type()) {
				if _, ofStrings := sl.X.Type().Underlying().(*types.Slice).Elem().Underlying().(*types.Slice); ofStrings {
					cutAt = b
				}
			}
		}
	})
	if !c.check(cutAt != nil, fname+"/snip-width-cut", pos, fname, "a full-width last line is cut to make room for the ellipsis", "Snip appends the ellipsis but never cuts a line to make room for it: a last line that fills the width becomes one character too wide") {
		return
	}
	type fk struct {
		v     ssa.Value
		truth bool
	}
	cutFacts := map[fk]bool{}
	widthEq := false
	for _, f := range factsOf(fn).At(cutAt) {
		cutFacts[fk{f.Cond, f.Truth}] = true
		if cmp, ok := f.Cmp(); ok && cmp.Op == token.EQL && (unwrapLoad(cmp.Y) == width || unwrapLoad(cmp.X) == width) {
			widthEq = true
		}
	}
	c.check(widthEq, fname+"/snip-width-guard", P.Pos(cutAt.Instrs[0].Pos()), fname, "the cut is made where the line is exactly `width` wide", "the cut that makes room for the ellipsis is not tied to the line being exactly `width` wide")
	var missing []string
	aboutIndex := func(v ssa.Value) bool {
		bo, ok := v.(*ssa.BinOp)
		if !ok {
			return false
		}
		for _, side := range []ssa.Value{bo.X, bo.Y} {
			if ph, ok := unwrapLoad(side).(*ssa.Phi); ok && ph.Block() == H && isInteger(ph.Type()) {
				return true
			}
		}
		return false
	}
	for _, f := range factsOf(fn).At(appendAt) {
		if aboutIndex(f.Cond) {
			continue // the walk has ended: says nothing about what was left out
		}
		if !cutFacts[fk{f.Cond, f.Truth}] {
			missing = append(missing, fmt.Sprintf("%s is %v", trimPkg(path(f.Cond)), f.Truth))
			continue
		}
		// a flag carried round the loop: frozen once a line has been kept
		if ph, ok := f.Cond.(*ssa.Phi); ok && ph.Block() == H {
			loopPaths, complete := enumeratePathsFrom(fn, H, H, 1024)
			if !complete {
				missing = append(missing, "the flag's history cannot be followed")
				continue
			}
			for _, pf := range loopPaths {
				blocks := pf.blocks[:len(pf.blocks)-1]
				last := blocks[len(blocks)-1]
				lc := newLcPath(P, fn, pathFacts{blocks: blocks, facts: pf.facts})
				var keptEdge, flagEdge ssa.Value
				for k, p := range H.Preds {
					if p == last {
						keptEdge, flagEdge = kept.Edges[k], ph.Edges[k]
					}
				}
				grown := keptEdge != nil && lc.at(keptEdge) != ssa.Value(kept)
				if grown && flagEdge != nil && lc.at(flagEdge) != ssa.Value(ph) {
					missing = append(missing, "the flag changes on a trip that keeps a line (path through lines "+pathLines(P, pf)+")")
				}
			}
		}
	}
	sort.Strings(missing)
	c.check(len(missing) == 0, fname+"/snip-width", P.Pos(appendAt.Instrs[0].Pos()), fname, "what the ellipsis is appended under is known where the full-width last line is cut",
		"the ellipsis is appended under a condition that the cut of a full-width last line does not know ("+strings.Join(missing, "; ")+"): the last line can end up one character wider than the width")
}

// pathContradicts: the branch facts of the path cannot all hold: a condition
// that resolves, along the path, to a constant of the other truth, or the same
// resolved condition taken both ways (a flag tested twice).
func pathContradicts(lc *lcPath, facts []Fact) bool {
	seen := map[ssa.Value]bool{}
	for _, f := range facts {
		v := lc.at(f.Cond)
		if k, ok := v.(*ssa.Const); ok && k.Value != nil && k.Value.Kind() == constant.Bool {
			if constant.BoolVal(k.Value) != f.Truth {
				return true
			}
			continue
		}
		if t, had := seen[v]; had && t != f.Truth {
			return true
		}
		seen[v] = f.Truth
	}
	return lc.infeasible()
}

// c13SnipSliced: Snip without a collecting loop — the kept lines are a slice
// of the lines of the text (`lines[:height]`, `lines[:end]` with end counted
// down from the length past the blank lines), the last kept line possibly
// replaced by itself without its last character. Decided per return path:
// the result is the kept lines joined by line feeds plus at most the
// ellipsis; the kept lines are a prefix of the lines (every slice starts at 0
// and ends within its operand, by the path's facts and the monotonicity of
// counters); there are at most `height` of them; the only element ever
// stored is the last kept one, with its own text or its text without the
// tail; and where the ellipsis is appended behind a line, that line was
// compared with the width and cut where it filled it.
func c13SnipSliced(c *Ctx, fn *ssa.Function) {
	P := c.P
	fname := FuncName(fn)
	pos := P.Pos(fn.Pos())
	text, width, height, ellipsis := ssa.Value(fn.Params[0]), ssa.Value(fn.Params[1]), ssa.Value(fn.Params[2]), ssa.Value(fn.Params[3])
	var lines ssa.Value
	eachInstr(fn, func(_ *ssa.BasicBlock, _ int, in ssa.Instruction) {
		if call, ok := in.(*ssa.Call); ok && isLibCall(&call.Call, "strings", "", "Split") {
			if s, ok := constString(call.Call.Args[1]); ok && s == "\n" && unwrapLoad(call.Call.Args[0]) == text {
				lines = call
			}
		}
	})
	if !c.check(lines != nil, fname+"/snip-lines", pos, fname, "the lines are strings.Split(text, \"\\n\")", "Snip does not take the lines of its own text parameter") {
		return
	}
	var chain func(v ssa.Value, seen map[ssa.Value]bool) bool
	chain = func(v ssa.Value, seen map[ssa.Value]bool) bool {
		v = unwrapLoad(v)
		if v == lines {
			return true
		}
		if seen[v] {
			return true
		}
		seen[v] = true
		switch x := v.(type) {
		case *ssa.Slice:
			if x.Max != nil {
				return false
			}
			if x.Low != nil {
				if k, ok := constInt(x.Low); !ok || k != 0 {
					return false
				}
			}
			return chain(x.X, seen)
		case *ssa.Phi:
			for _, e := range x.Edges {
				if !chain(e, seen) {
					return false
				}
			}
			return len(x.Edges) > 0
		}
		return false
	}
	isChain := func(v ssa.Value) bool { return chain(v, map[ssa.Value]bool{}) }
	collapseFn := P.FuncOpt("servitor/ansi", "collapse")
	// stores into the lines
	elemOf := func(v ssa.Value) *ssa.IndexAddr {
		ld, ok := unwrapLoad(v).(*ssa.UnOp)
		if !ok || ld.Op != token.MUL {
			return nil
		}
		ia, _ := ld.X.(*ssa.IndexAddr)
		if ia == nil || !isChain(ia.X) {
			return nil
		}
		return ia
	}
	sameElem := func(a, b *ssa.IndexAddr) bool {
		return a != nil && b != nil && path(a.X) == path(b.X) && lin(a.Index).String() == lin(b.Index).String()
	}
	var stores []*ssa.Store
	okStores, whyStore := true, ""
	eachInstr(fn, func(_ *ssa.BasicBlock, _ int, in ssa.Instruction) {
		st, ok := in.(*ssa.Store)
		if !ok {
			return
		}
		ia, ok := st.Addr.(*ssa.IndexAddr)
		if !ok || !isChain(ia.X) {
			return
		}
		stores = append(stores, st)
		// the last element: len(X)-1
		last := false
		if b, ok := ia.Index.(*ssa.BinOp); ok && b.Op == token.SUB {
			if k, isK := constInt(b.Y); isK && k == 1 {
				if lc, ok := b.X.(*ssa.Call); ok {
					if bi, ok := lc.Call.Value.(*ssa.Builtin); ok && bi.Name() == "len" && path(lc.Call.Args[0]) == path(ia.X) {
						last = true
					}
				}
			}
		}
		if !last {
			okStores, whyStore = false, "a line other than the last kept one is overwritten at "+P.InstrPos(st)
			return
		}
		var allowed func(v ssa.Value, d int) bool
		allowed = func(v ssa.Value, d int) bool {
			if d > 6 {
				return false
			}
			if e := elemOf(v); e != nil {
				return sameElem(e, ia)
			}
			switch x := unwrapLoad(v).(type) {
			case *ssa.Phi:
				for _, e := range x.Edges {
					if !allowed(e, d+1) {
						return false
					}
				}
				return true
			case *ssa.Call:
				if collapseFn == nil || x.Call.StaticCallee() != collapseFn {
					return false
				}
				m := unwrapLoad(x.Call.Args[0])
				if sl, ok := m.(*ssa.Slice); ok {
					if sl.Low != nil {
						return false
					}
					m = unwrapLoad(sl.X)
				}
				ec, ok := m.(*ssa.Call)
				if !ok || ec.Call.StaticCallee() == nil || ec.Call.StaticCallee().Name() != "expand" {
					return false
				}
				return sameElem(elemOf(ec.Call.Args[0]), ia)
			}
			return false
		}
		if !allowed(st.Val, 0) {
			okStores, whyStore = false, "the line stored at "+P.InstrPos(st)+" is not the last kept line itself or that line without its tail"
		}
	})
	c.ok(fname+"/snip-loop", pos, fname, "no loop collects lines: the kept lines are a slice of the lines of the text")
	c.check(okStores, fname+"/snip-state", pos, fname, fmt.Sprintf("%d stores into the lines, each of the last kept line with its own text or its text without the tail", len(stores)), whyStore)
	// the comparison of the last kept line with the width
	widthTest := func(f Fact) (isTest, fills bool) {
		cmp, ok := f.Cmp()
		if !ok || (cmp.Op != token.EQL && cmp.Op != token.NEQ) {
			return false, false
		}
		for _, side := range [][2]ssa.Value{{cmp.X, cmp.Y}, {cmp.Y, cmp.X}} {
			if unwrapLoad(side[1]) != width {
				continue
			}
			lcall, ok := unwrapLoad(side[0]).(*ssa.Call)
			if !ok {
				continue
			}
			bi, ok := lcall.Call.Value.(*ssa.Builtin)
			if !ok || bi.Name() != "len" {
				continue
			}
			ec, ok := unwrapLoad(lcall.Call.Args[0]).(*ssa.Call)
			if !ok || ec.Call.StaticCallee() == nil || ec.Call.StaticCallee().Name() != "expand" || elemOf(ec.Call.Args[0]) == nil {
				continue
			}
			return true, cmp.Op == token.EQL
		}
		return false, false
	}
	complete := eachReturnPath(fn, func(ret *ssa.Return, pf pathFacts, k int) {
		if len(ret.Results) != 1 {
			return
		}
		lc := newLcPath(P, fn, pf)
		lc.opaque = map[*ssa.BasicBlock]bool{}
		for h := range loopHeads(fn) {
			lc.opaque[h] = true
		}
		lc.assume(lc.num(height)) // for a negative height the function as pinned panics (make); the property speaks of heights that can be shown
		lc.useFacts()
		for h := range lc.opaque {
			lc.assumeMonotone(h) // with the path's facts in place: what a counter starts from may rest on them
		}
		lc.problems = nil // bounds met while the hypotheses were still being collected are looked at again below
		if pathContradicts(lc, pf.facts) {
			return
		}
		where := "path through lines " + pathLines(P, pf)
		r := lc.at(ret.Results[0])
		withEllipsis := false
		if b, ok := r.(*ssa.BinOp); ok && b.Op == token.ADD && unwrapLoad(b.Y) == ellipsis {
			withEllipsis = true
			r = lc.at(b.X)
		}
		if unwrapLoad(r) == ellipsis && !withEllipsis {
			c.ok(fname+"/snip-result", P.InstrPos(ret), fname, "nothing is kept: the ellipsis alone ("+where+")")
			return
		}
		jc, ok := r.(*ssa.Call)
		var S ssa.Value
		if ok && isLibCall(&jc.Call, "strings", "", "Join") {
			if s, isS := constString(jc.Call.Args[1]); isS && s == "\n" {
				S = lc.at(jc.Call.Args[0])
			}
		}
		if !c.check(S != nil && isChain(S), fname+"/snip-result", P.InstrPos(ret), fname, "a slice of the lines of the text that starts at the first, joined with line feeds, plus possibly the ellipsis ("+where+")",
			"Snip returns something else than a leading slice of the lines of the text joined with line feeds and, at most, the ellipsis behind them ("+where+")") {
			return
		}
		n, _ := lc.sliceInfo(S)
		bound := len(lc.problems) == 0 && lc.nonNeg(lc.num(height).add(n, -1))
		why := "more than `height` lines can be returned: the number of kept lines, " + n.String() + ", is not known to be at most height (" + where + ")"
		if len(lc.problems) > 0 {
			why = lc.problems[0] + " (" + where + ")"
		}
		c.check(bound, fname+"/snip-bound", P.InstrPos(ret), fname, "at most height lines: "+n.String()+" <= height, every slice within its operand ("+where+")", why)
		if !withEllipsis || lc.nonNeg(newLin().add(n, -1)) {
			return // no ellipsis, or no line in front of it
		}
		tested, fills := false, false
		for _, f := range pf.facts {
			if is, eq := widthTest(f); is {
				tested = true
				if eq {
					fills = true
				}
			}
		}
		cut := false
		for _, st := range stores {
			for _, b := range pf.blocks {
				if st.Block() == b {
					cut = true
				}
			}
		}
		c.check(tested && (!fills || cut), fname+"/snip-width", P.InstrPos(ret), fname, "the ellipsis follows a line that was compared with the width, and cut where it filled it ("+where+")",
			"the ellipsis is appended behind the last kept line without that line having been compared with the width (or without its last character having been removed where it fills the width): the line becomes one character wider than the width ("+where+")")
	})
	c.check(complete, fname+"/snip-paths", pos, fname, "every path to a return enumerated", "too many paths through Snip to enumerate")
}
