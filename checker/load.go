package main

import (
	"fmt"
	"go/ast"
	"go/token"
	"go/types"
	"os"
	"path/filepath"
	"sort"
	"strings"

	"golang.org/x/tools/go/callgraph"
	"golang.org/x/tools/go/callgraph/cha"
	"golang.org/x/tools/go/callgraph/vta"
	"golang.org/x/tools/go/packages"
	"golang.org/x/tools/go/ssa"
	"golang.org/x/tools/go/ssa/ssautil"
)

const modulePath = "servitor"

// expectedPackages is the number of servitor packages on the pinned tree; the
// loader fails (CHECK-BROKEN) below it: a static tool sees only what was parsed.
const expectedPackages = 17

// Program is the resolved, type-checked whole program.
type Program struct {
	Repo   string
	Fset   *token.FileSet
	All    []*packages.Package          // every package in the import closure
	Pkgs   []*packages.Package          // servitor packages only
	ByPath map[string]*packages.Package // servitor packages by import path
	SSA    *ssa.Program
	Funcs  []*ssa.Function // every servitor function incl. closures and instantiations
	cg     *callgraph.Graph
	chaCG  *callgraph.Graph
	useCHA bool
	Tags   string
	cache  map[string]any // per-program memo of expensive analyses
	// NormLog: what the normalising inliner did before the rules ran
	NormLog []string
	// anchors found in another package than the inventory says (movedFunc)
	moved    map[string]*ssa.Function
	MovedLog []string
}

// BrokenError marks a failure of the machinery itself (unresolved anchor,
// type errors, ...) as opposed to a violation of a property.
type BrokenError struct{ Msg string }

func (b BrokenError) Error() string { return b.Msg }

func broken(format string, args ...any) {
	panic(BrokenError{fmt.Sprintf(format, args...)})
}

// ShapeError: a rule cannot follow the shape of the code it is about (the
// fetcher opens no connection in jtp.Get any more, a function lost the
// parameters the rule speaks of). Unlike BrokenError it says something about
// the analysed tree, and is reported as a violation of the rule that raised it.
type ShapeError struct{ Msg string }

func (s ShapeError) Error() string { return s.Msg }

func unfollowed(format string, args ...any) {
	panic(ShapeError{fmt.Sprintf(format, args...)})
}

func isServitorPath(p string) bool {
	return p == modulePath || strings.HasPrefix(p, modulePath+"/")
}

type LoadOptions struct {
	Repo    string
	Tags    string
	Tests   bool
	GOARCH  string
	Overlay map[string][]byte
	// NoInline switches the normalising inliner off (anchor generation)
	NoInline bool
}

func Load(opt LoadOptions) *Program {
	env := []string{}
	for _, kv := range os.Environ() {
		if strings.HasPrefix(kv, "GOWORK=") || strings.HasPrefix(kv, "GOFLAGS=") ||
			strings.HasPrefix(kv, "GOPROXY=") || strings.HasPrefix(kv, "GOSUMDB=") ||
			strings.HasPrefix(kv, "GOTOOLCHAIN=") || strings.HasPrefix(kv, "GOARCH=") {
			continue
		}
		env = append(env, kv)
	}
	env = append(env, "GOWORK=off", "GOFLAGS=-mod=mod", "GOPROXY=off", "GOSUMDB=off", "GOTOOLCHAIN=local")
	if opt.GOARCH != "" {
		env = append(env, "GOARCH="+opt.GOARCH, "CGO_ENABLED=0")
	}
	cfg := &packages.Config{
		Mode:    packages.LoadAllSyntax,
		Dir:     opt.Repo,
		Env:     env,
		Tests:   opt.Tests,
		Overlay: opt.Overlay,
	}
	if opt.Tags != "" {
		cfg.BuildFlags = []string{"-tags=" + opt.Tags}
	}
	var normLog []string
	if !opt.NoInline {
		if goov := normaliseGoArgs(opt.Repo, opt.Overlay); len(goov) > 0 {
			merged := map[string][]byte{}
			for k, v := range opt.Overlay {
				merged[k] = v
			}
			var names []string
			for k, v := range goov {
				merged[k] = v
				names = append(names, strings.TrimPrefix(k, opt.Repo+"/"))
			}
			sort.Strings(names)
			normLog = append(normLog, "go/defer literals with arguments rewritten to captured per-statement variables in: "+strings.Join(names, ", "))
			opt.Overlay = merged
			cfg.Overlay = merged
		}
		if found, testIdents := hasNewFunctions(opt.Repo, opt.Overlay); found {
			lcfg := *cfg
			lcfg.Mode = packages.LoadSyntax
			lcfg.Tests = false
			var ov map[string][]byte
			var nl2 []string
			ov, nl2 = Normalise(opt, testIdents, func(overlay map[string][]byte) []*packages.Package {
				c := lcfg
				c.Overlay = overlay
				pkgs, err := packages.Load(&c, "./...")
				if err != nil {
					return nil
				}
				return pkgs
			})
			normLog = append(normLog, nl2...)
			if ov != nil {
				cfg.Overlay = ov
			}
		}
	}
	initial, err := packages.Load(cfg, "./...")
	if err != nil {
		broken("go/packages: %v", err)
	}
	p := &Program{Repo: opt.Repo, ByPath: map[string]*packages.Package{}, Tags: opt.Tags, cache: map[string]any{}, NormLog: normLog}
	var errs []string
	packages.Visit(initial, nil, func(pkg *packages.Package) {
		p.All = append(p.All, pkg)
		if isServitorPath(pkg.PkgPath) {
			for _, e := range pkg.Errors {
				errs = append(errs, e.Error())
			}
		}
	})
	if len(errs) > 0 {
		sort.Strings(errs)
		broken("the tree does not type-check: %s", strings.Join(errs, "; "))
	}
	for _, pkg := range initial {
		if !isServitorPath(pkg.PkgPath) {
			continue
		}
		if opt.Tests && (strings.HasSuffix(pkg.ID, ".test") || strings.Contains(pkg.ID, "[")) {
			// test variants are loaded to prove they type-check; rules run on the
			// production packages
			if strings.HasSuffix(pkg.ID, ".test") {
				continue
			}
		}
		if _, dup := p.ByPath[pkg.PkgPath]; dup && !strings.Contains(pkg.ID, "[") {
			continue
		}
		p.ByPath[pkg.PkgPath] = pkg
	}
	for _, pkg := range p.ByPath {
		p.Pkgs = append(p.Pkgs, pkg)
		p.Fset = pkg.Fset
	}

	sort.Slice(p.Pkgs, func(i, j int) bool { return p.Pkgs[i].PkgPath < p.Pkgs[j].PkgPath })
	if len(p.Pkgs) < expectedPackages {
		broken("loaded %d servitor packages, expected at least %d", len(p.Pkgs), expectedPackages)
	}
	prog, _ := ssautil.AllPackages(initial, ssa.InstantiateGenerics)
	prog.Build()
	p.SSA = prog
	if opt.Tests {
		for _, pkg := range p.Pkgs {
			var keep []*ast.File
			for _, f := range pkg.Syntax {
				if !strings.HasSuffix(p.Fset.Position(f.Pos()).Filename, "_test.go") {
					keep = append(keep, f)
				}
			}
			pkg.Syntax = keep
		}
	}
	all := ssautil.AllFunctions(prog)
	for fn := range all {
		if p.IsServitorFunc(fn) && fn.Blocks != nil {
			// rules speak about the program, not about its tests: functions
			// declared in _test.go files (test variant) are not analysed
			if pos := fn.Pos(); pos.IsValid() && strings.HasSuffix(p.Fset.Position(pos).Filename, "_test.go") {
				continue
			}
			if par := fn.Parent(); par != nil && par.Pos().IsValid() && strings.HasSuffix(p.Fset.Position(par.Pos()).Filename, "_test.go") {
				continue
			}
			p.Funcs = append(p.Funcs, fn)
		}
	}
	sort.Slice(p.Funcs, func(i, j int) bool {
		a, b := p.Funcs[i], p.Funcs[j]
		if a.Pos() != b.Pos() {
			return a.Pos() < b.Pos()
		}
		return a.String() < b.String()
	})
	p.chaCG = cha.CallGraph(prog)
	p.cg = vta.CallGraph(all, p.chaCG)
	p.resolveMovedAnchors()
	return p
}

func (p *Program) CG() *callgraph.Graph {
	if p.useCHA {
		return p.chaCG
	}
	return p.cg
}

func funcPkg(fn *ssa.Function) *types.Package {
	for fn.Parent() != nil {
		fn = fn.Parent()
	}
	if fn.Pkg != nil {
		return fn.Pkg.Pkg
	}
	if o := fn.Origin(); o != nil && o.Pkg != nil {
		return o.Pkg.Pkg
	}
	if obj := fn.Object(); obj != nil {
		return obj.Pkg()
	}
	// wrappers / bound methods
	if fn.Signature != nil && fn.Signature.Recv() != nil {
		t := fn.Signature.Recv().Type()
		if pt, ok := t.(*types.Pointer); ok {
			t = pt.Elem()
		}
		if n, ok := t.(*types.Named); ok && n.Obj() != nil {
			return n.Obj().Pkg()
		}
	}
	return nil
}

func (p *Program) IsServitorFunc(fn *ssa.Function) bool {
	if fn == nil {
		return false
	}
	pk := funcPkg(fn)
	return pk != nil && isServitorPath(pk.Path())
}

// PkgOf returns the servitor import path of fn ("" for library functions).
func (p *Program) PkgOf(fn *ssa.Function) string {
	// an anchor that moved to another package still belongs, for the layering the
	// rules speak of, to the package the inventory has it in (with its closures)
	for f := fn; f != nil; f = f.Parent() {
		if lp, ok := logicalPkg[f]; ok {
			return lp
		}
	}
	pk := funcPkg(fn)
	if pk == nil {
		return ""
	}
	return pk.Path()
}

// Pos renders a position relative to the repository root.
func (p *Program) Pos(pos token.Pos) string {
	if !pos.IsValid() {
		return "-"
	}
	pp := p.Fset.Position(pos)
	rel, err := filepath.Rel(p.Repo, pp.Filename)
	if err != nil {
		rel = pp.Filename
	}
	return fmt.Sprintf("%s:%d", rel, pp.Line)
}

// InstrPos finds the best position for an instruction (some have NoPos).
func (p *Program) InstrPos(in ssa.Instruction) string {
	if in == nil {
		return "-"
	}
	if in.Pos().IsValid() {
		return p.Pos(in.Pos())
	}
	// fall back on operands, then on the function
	var ops []*ssa.Value
	for _, op := range in.Operands(ops) {
		if *op != nil && (*op).Pos().IsValid() {
			return p.Pos((*op).Pos())
		}
	}
	if in.Parent() != nil {
		return p.Pos(in.Parent().Pos())
	}
	return "-"
}

// FuncName is the stable, line-free name used in obligation keys.
func FuncName(fn *ssa.Function) string {
	if fn == nil {
		return "<nil>"
	}
	return fn.String()
}

// --- anchors ---------------------------------------------------------------

func (p *Program) Package(path string) *packages.Package {
	pkg := p.ByPath[path]
	if pkg == nil {
		broken("anchor: package %s not found", path)
	}
	return pkg
}

func (p *Program) ssaPkg(path string) *ssa.Package {
	return p.SSA.Package(p.Package(path).Types)
}

// Func resolves a package-level function; optional=true returns nil when absent.
func (p *Program) FuncOpt(path, name string) *ssa.Function {
	sp := p.ssaPkg(path)
	if sp == nil {
		return nil
	}
	return sp.Func(name)
}

func (p *Program) Func(path, name string) *ssa.Function {
	fn := p.FuncOpt(path, name)
	if fn == nil {
		fn = p.movedFunc(path, "", name)
	}
	if fn == nil {
		unfollowed("anchor: function %s.%s not found", path, name)
	}
	return fn
}

// Method resolves a method on a named type T or *T.
func (p *Program) MethodOpt(path, typ, name string) *ssa.Function {
	obj := p.Package(path).Types.Scope().Lookup(typ)
	if obj == nil {
		return nil
	}
	for _, t := range []types.Type{obj.Type(), types.NewPointer(obj.Type())} {
		ms := p.SSA.MethodSets.MethodSet(t)
		for i := 0; i < ms.Len(); i++ {
			sel := ms.At(i)
			if sel.Obj().Name() == name {
				f := p.SSA.FuncValue(sel.Obj().(*types.Func))
				if f != nil {
					return f
				}
			}
		}
	}
	return nil
}

func (p *Program) Method(path, typ, name string) *ssa.Function {
	fn := p.MethodOpt(path, typ, name)
	if fn == nil {
		fn = p.movedFunc(path, typ, name)
	}
	if fn == nil {
		unfollowed("anchor: method %s.%s.%s not found", path, typ, name)
	}
	return fn
}

func (p *Program) NamedType(path, typ string) *types.Named {
	obj := p.Package(path).Types.Scope().Lookup(typ)
	if obj == nil {
		if n := p.movedType(path, typ); n != nil {
			return n
		}
	}
	if obj == nil {
		unfollowed("anchor: type %s.%s not found", path, typ)
	}
	n, ok := obj.Type().(*types.Named)
	if !ok {
		broken("anchor: %s.%s is not a named type", path, typ)
	}
	return n
}

func (p *Program) FieldOpt(path, typ, field string) *types.Var {
	obj := p.Package(path).Types.Scope().Lookup(typ)
	if obj == nil {
		return nil
	}
	st, ok := obj.Type().Underlying().(*types.Struct)
	if !ok {
		return nil
	}
	for i := 0; i < st.NumFields(); i++ {
		if st.Field(i).Name() == field {
			return st.Field(i)
		}
	}
	return nil
}

func (p *Program) Field(path, typ, field string) *types.Var {
	v := p.FieldOpt(path, typ, field)
	if v == nil {
		// the field may have been grouped with others into a small struct of the
		// same package (`width, height int` -> `size frameSize`): exactly one
		// field of that name one level down
		if n := p.NamedType(path, typ); n != nil {
			if st, ok := n.Underlying().(*types.Struct); ok {
				var found []*types.Var
				for i := 0; i < st.NumFields(); i++ {
					inner, ok := st.Field(i).Type().(*types.Named)
					if !ok || inner.Obj().Pkg() == nil || inner.Obj().Pkg().Path() != path || anchorTypes[path+"."+inner.Obj().Name()] {
						continue
					}
					ist, ok := inner.Underlying().(*types.Struct)
					if !ok {
						continue
					}
					for j := 0; j < ist.NumFields(); j++ {
						if ist.Field(j).Name() == field {
							found = append(found, ist.Field(j))
						}
					}
				}
				if len(found) == 1 {
					return found[0]
				}
			}
		}
	}
	if v == nil {
		unfollowed("anchor: field %s.%s.%s not found", path, typ, field)
	}
	return v
}

func (p *Program) Global(path, name string) *ssa.Global {
	sp := p.ssaPkg(path)
	if sp != nil {
		if g, ok := sp.Members[name].(*ssa.Global); ok {
			return g
		}
	}
	unfollowed("anchor: global %s.%s not found", path, name)
	return nil
}

// LibFunc resolves a function or method object in a (non-servitor) package of
// the import closure, e.g. LibFunc("crypto/tls", "", "DialWithDialer") or
// LibFunc("net", "Conn", "Write").
func (p *Program) LibPkg(path string) *types.Package {
	for _, pkg := range p.All {
		if pkg.PkgPath == path && pkg.Types != nil {
			return pkg.Types
		}
	}
	return nil
}

// FuncsIn lists servitor functions (with closures) whose package is path.
func (p *Program) FuncsIn(paths ...string) []*ssa.Function {
	var out []*ssa.Function
	for _, fn := range p.Funcs {
		pk := p.PkgOf(fn)
		for _, want := range paths {
			if pk == want {
				out = append(out, fn)
			}
		}
	}
	return out
}

// Closures of fn in source order, transitively.
func Closures(fn *ssa.Function) []*ssa.Function {
	var out []*ssa.Function
	var rec func(f *ssa.Function)
	rec = func(f *ssa.Function) {
		for _, a := range f.AnonFuncs {
			out = append(out, a)
			rec(a)
		}
	}
	rec(fn)
	return out
}

// FileOf returns the syntax file containing pos.
func (p *Program) FileOf(pos token.Pos) *ast.File {
	for _, pkg := range p.Pkgs {
		for _, f := range pkg.Syntax {
			if f.Pos() <= pos && pos <= f.End() {
				return f
			}
		}
	}
	return nil
}

// calleeObj gives the *types.Func a call statically resolves to (function,
// concrete method or interface method), or nil for dynamic closure calls.
func calleeObj(c *ssa.CallCommon) *types.Func {
	if c.IsInvoke() {
		return c.Method
	}
	switch v := c.Value.(type) {
	case *ssa.Function:
		if f, ok := v.Object().(*types.Func); ok {
			return f
		}
		if o := v.Origin(); o != nil {
			if f, ok := o.Object().(*types.Func); ok {
				return f
			}
		}
	case *ssa.MakeClosure:
		return nil
	}
	return nil
}

// isLibCall reports whether the call statically targets pkgPath.name (for
// methods: recv is the receiver's named type, "" for plain functions).
func isLibCall(c *ssa.CallCommon, pkgPath, recv, name string) bool {
	f := calleeObj(c)
	if f == nil || f.Name() != name || f.Pkg() == nil || f.Pkg().Path() != pkgPath {
		return false
	}
	sig := f.Type().(*types.Signature)
	if recv == "" {
		return sig.Recv() == nil
	}
	if sig.Recv() == nil {
		return false
	}
	t := sig.Recv().Type()
	if pt, ok := t.(*types.Pointer); ok {
		t = pt.Elem()
	}
	n, ok := t.(*types.Named)
	return ok && n.Obj().Name() == recv
}

func objFullName(f *types.Func) string {
	if f == nil {
		return "<dynamic>"
	}
	return f.FullName()
}

// --- anchors that moved to another package -----------------------------------
//
// A function, method or type of the inventory that is gone from its package
// and that exists, under the same name (the first letter in either case), as
// a NEW declaration of another package of the module is that anchor moved
// (`object.Object.GetMarkup` -> `pub.getMarkup(o object.Object, …)`). A method
// is looked for as a function whose first parameter has the former receiver's
// type. Exactly one candidate, or the anchor stays missing.

func sameNameEitherCase(a, b string) bool {
	if a == b {
		return true
	}
	if a == "" || b == "" || a[1:] != b[1:] {
		return false
	}
	return strings.EqualFold(a[:1], b[:1])
}

func (p *Program) movedFunc(path, typ, name string) *ssa.Function {
	key := path + "." + name
	if typ != "" {
		key = path + ".(" + typ + ")." + name
	}
	if fn, ok := p.moved[key]; ok {
		return fn
	}
	var found []*ssa.Function
	for ppath, pkg := range p.ByPath {
		if !isServitorPath(ppath) {
			continue
		}
		sp := p.SSA.Package(pkg.Types)
		if sp == nil {
			continue
		}
		for _, m := range sp.Members {
			fn, ok := m.(*ssa.Function)
			if !ok || !sameNameEitherCase(fn.Name(), name) || anchorFuncs[ppath+"."+fn.Name()] || fn.Signature.Recv() != nil {
				continue
			}
			if typ != "" {
				if len(fn.Params) == 0 {
					continue
				}
				n := namedOf(fn.Params[0].Type())
				if n == nil || n.Obj().Pkg() == nil || n.Obj().Pkg().Path() != path || n.Obj().Name() != typ {
					continue
				}
			} else if ppath == path {
				continue
			}
			found = append(found, fn)
		}
	}
	var fn *ssa.Function
	if len(found) == 1 {
		fn = found[0]
		p.MovedLog = append(p.MovedLog, "anchor "+key+" is now "+fn.String())
	}
	if p.moved == nil {
		p.moved = map[string]*ssa.Function{}
	}
	p.moved[key] = fn
	return fn
}

func (p *Program) movedType(path, typ string) *types.Named {
	var found []*types.Named
	for ppath, pkg := range p.ByPath {
		if !isServitorPath(ppath) || ppath == path {
			continue
		}
		for _, nm := range pkg.Types.Scope().Names() {
			if !sameNameEitherCase(nm, typ) || anchorTypes[ppath+"."+nm] {
				continue
			}
			if tn, ok := pkg.Types.Scope().Lookup(nm).(*types.TypeName); ok {
				if n, ok := tn.Type().(*types.Named); ok {
					found = append(found, n)
				}
			}
		}
	}
	if len(found) == 1 {
		return found[0]
	}
	return nil
}

// logicalPkg: functions of the inventory found in another package than the
// inventory says, with the package they are anchored in. Package-level because
// helpers that only get a function (inStyleLayer) consult it too; one program
// is analysed per process.
var logicalPkg = map[*ssa.Function]string{}

func (p *Program) resolveMovedAnchors() {
	for key := range anchorFuncs {
		dot := strings.LastIndex(key, ".")
		if dot < 0 {
			continue
		}
		path, name, typ := key[:dot], key[dot+1:], ""
		if i := strings.Index(path, ".("); i >= 0 {
			typ = strings.TrimSuffix(path[i+2:], ")")
			path = path[:i]
		}
		pkg := p.ByPath[path]
		if pkg == nil {
			continue
		}
		present := false
		if typ == "" {
			sp := p.SSA.Package(pkg.Types)
			present = sp != nil && sp.Func(name) != nil
		} else {
			present = p.MethodOpt(path, typ, name) != nil
		}
		if present {
			continue
		}
		if fn := p.movedFunc(path, typ, name); fn != nil {
			logicalPkg[fn] = path
		}
	}
}
