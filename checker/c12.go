package main

import (
	"fmt"
	"go/token"
	"go/types"
	"strings"

	"golang.org/x/tools/go/ssa"
)

func init() { registry["C12"] = propC12 }

func propC12() *Property {
	return &Property{
		ID:          "C12",
		Explanation: "Structural clauses of link numbering. Decided: (R1) in every markup renderer each label printed by style.Link / style.LinkBlock is the length of the link list taken immediately after its own append — no call that can append to the same list lies between the append and the evaluation of len — and every append has exactly one label; (R2) label and lookup are inverse: attachments are labelled len(bodyLinks)+i+1 for slot i and SelectLink(k) reads attachments[k-1-len(bodyLinks)] and bodyLinks[k-1] (linear forms composed to the identity); body/bodyLinks and bio/bioLinks come from the same GetMarkup call; Activity delegates rendering and selection to the same target; (R3) every index in the SelectLink implementations is provably within 0..len-1 (numbers outside 1..N open nothing); (R4) Markdown returns the link list of its HTML rendering unchanged; (R7) every producer whose results are stored into a link list and its error field (attachments/attachmentsErr, bodyLinks/bodyErr, bioLinks/bioErr) returns an empty list whenever its error can be non-nil — the renderers print no numbers when the error is set, while SelectLink looks at the list only; (R6) style.superscript prints digit k as the Unicode superscript of k for all ten digits and emits the decimal digits of the number most significant first (strings.Map over the decimal representation, a loop over it that appends, or a divide-by-ten loop that prepends). (R1, addition) from every append to a link list every way to a return of that function passes the label call that shows its number: no target is listed on a path that shows no number. (R9) a link number is typed digit by digit: exactly the ten digits are taken, a digit outside selection mode starts from an empty buffer, the mode is selection afterwards. (R1, addition) the text handed to a label call is not a slice or a strings.Trim* result: the number goes behind the whole rendering of what it labels. (R10 = C07.R2) explicit panics reachable from key handling are discharged: a number that labels nothing opens nothing. NOT decided: that superscripts survive wrapping at every width and that link order is width-independent (string values).",
		Assumptions: []string{"len/append semantics of Go slices"},
		Rules: []Rule{
			{ID: "C12.R1", Title: "a link's label is taken at its own append", Floor: 6, Run: c12R1},
			{ID: "C12.R2", Title: "label and lookup are inverse; lists paired with their text", Floor: 6, Run: c12R2},
			{ID: "C12.R3", Title: "link numbers outside 1..N open nothing (index bounds)", Floor: 4, Run: c12R3},
			{ID: "C12.R4", Title: "Markdown forwards the HTML link list", Floor: 1, Run: c12R4},
			{ID: "C12.R5", Title: "which targets are numbered does not depend on the width", Floor: 3, Run: c12R5},
			{ID: "C12.R6", Title: "the printed label shows the number: superscript digit table, most significant digit first", Floor: 2, Run: c12R6},
			{ID: "C12.R7", Title: "a link list that comes with an error is empty: no link without a number can be selected", Floor: 3, Run: c12R7},
			{ID: "C12.R10", Title: "a number that labels nothing opens nothing — it does not end the program: explicit panics reachable from key handling are discharged (same instances as C07.R2)", Floor: 3, Run: c07R2},
			{ID: "C12.R9", Title: "a link number is typed digit by digit: Update takes exactly the ten digits, a digit typed outside selection mode starts a fresh number, one typed in it extends the number, and the mode is selection afterwards", Floor: 3, Run: c12R9},
			{ID: "C12.R8", Title: "opening one link does not change what the next number opens: the hook's argv is a private copy of the configuration (same instances as C20.R2)", Floor: 2, Run: c20R2},
		},
	}
}

var markupPkgs = []string{"servitor/hypertext", "servitor/gemtext", "servitor/plaintext"}

func isLabelCall(c *ssa.CallCommon) bool {
	sc := c.StaticCallee()
	if sc == nil || sc.Pkg == nil || sc.Pkg.Pkg.Path() != "servitor/style" {
		return false
	}
	return sc.Name() == "Link" || sc.Name() == "LinkBlock"
}

type appendStore struct {
	fn     *ssa.Function
	call   *ssa.Call  // append(...)
	store  *ssa.Store // nil when the result stays an SSA value
	cell   string     // path of the address stored to
	labels int
	sites  []*ssa.Call // the label calls that show this append's number
}

func findAppends(P *Program, pkgs []string) []*appendStore {
	var out []*appendStore
	for _, fn := range P.FuncsIn(pkgs...) {
		eachInstr(fn, func(_ *ssa.BasicBlock, _ int, in ssa.Instruction) {
			call, ok := in.(*ssa.Call)
			if !ok {
				return
			}
			b, ok := call.Call.Value.(*ssa.Builtin)
			if !ok || b.Name() != "append" || typeString(call.Type()) != "[]string" {
				return
			}
			as := &appendStore{fn: fn, call: call}
			for _, r := range refs(call) {
				if st, ok := r.(*ssa.Store); ok && unwrapLoad(st.Val) == ssa.Value(call) {
					as.store = st
					as.cell = path(st.Addr)
				}
			}
			out = append(out, as)
		})
	}
	return out
}

func c12R1(c *Ctx) {
	P := c.P
	appends := findAppends(P, markupPkgs)
	// W: functions that may (transitively) append to a link list
	mayAppend := map[*ssa.Function]bool{}
	for _, a := range appends {
		mayAppend[a.fn] = true
	}
	changed := true
	for changed {
		changed = false
		for _, fn := range P.FuncsIn(markupPkgs...) {
			if mayAppend[fn] {
				continue
			}
			eachInstr(fn, func(_ *ssa.BasicBlock, _ int, in ssa.Instruction) {
				if ci, ok := in.(ssa.CallInstruction); ok {
					for _, callee := range P.Callees(ci) {
						if mayAppend[callee] && !mayAppend[fn] {
							mayAppend[fn] = true
							changed = true
						}
					}
				}
			})
		}
	}
	nLabels := 0
	carried := map[*ssa.Store]bool{}
	for _, fn := range P.FuncsIn(markupPkgs...) {
		fname := FuncName(fn)
		eachInstr(fn, func(_ *ssa.BasicBlock, _ int, in ssa.Instruction) {
			call, ok := in.(*ssa.Call)
			if !ok || !isLabelCall(&call.Call) {
				return
			}
			nLabels++
			num := call.Call.Args[len(call.Call.Args)-1]
			pos := P.InstrPos(in)
			// the number goes behind everything the labelled element rendered: a rendering that is cut
			// first (trimmed, sliced) loses the blank lines that end an inner numbered element, and its
			// number and this one are then shown as one
			if len(call.Call.Args) >= 2 {
				cut := ""
				switch x := unwrapLoad(call.Call.Args[0]).(type) {
				case *ssa.Slice:
					cut = "a slice expression"
				case *ssa.Call:
					if sc := x.Call.StaticCallee(); sc != nil && sc.Pkg != nil && sc.Pkg.Pkg.Path() == "strings" && strings.HasPrefix(sc.Name(), "Trim") {
						cut = "strings." + sc.Name()
					}
				}
				c.check(cut == "", fname+"/label-after-whole-text", pos, fname, "the label follows the whole rendering of what it labels",
					"the text that gets the number is cut first ("+cut+"): the separators that end an inner link or media element (whose own number comes last in it) are gone, and the two numbers are displayed as one number that opens something else")
			}
			lc, ok := num.(*ssa.Call)
			isLen := false
			if ok {
				if b, ok := lc.Call.Value.(*ssa.Builtin); ok && b.Name() == "len" {
					isLen = true
				}
			}
			if f := loadedField(num); !isLen && f != nil && f.Pkg() != nil && isServitorPath(f.Pkg().Path()) {
				// (d) the number is carried in a field of a record that was filled where the
				// link was appended and is printed from there (a parser that builds blocks,
				// a renderer that prints them)
				ok, why := carriedLabel(P, fn, call, num, f, appends, mayAppend, carried)
				if ok {
					c.ok(fname+"/label", pos, fname, "label read from a record field that is only ever filled with len(list) right after the link's own append")
				} else {
					c.bad(fname+"/label", pos, fname, why)
				}
				return
			}
			if !isLen {
				// (c) label = len(list) + 1 taken before the append of exactly one
				// target to that list, nothing in between that can append
				if a, why := labelBeforeAppend(P, fn, call, num, appends, mayAppend); a != nil {
					a.labels++
					c.ok(fname+"/label", pos, fname, "label = len(list)+1 computed right before its own single-element append")
					return
				} else if why != "" {
					c.bad(fname+"/label", pos, fname, why)
					return
				}
				c.bad(fname+"/label", pos, fname, "the number printed next to a link is not len(link list)")
				return
			}
			list := lc.Call.Args[0]
			// (a) len of the append result itself
			for _, a := range appends {
				if unwrapLoad(list) == ssa.Value(a.call) {
					a.labels++
					a.sites = append(a.sites, call)
					c.ok(fname+"/label", pos, fname, "label = len(result of its own append)")
					return
				}
			}
			// (b) len of a load of the cell the append was stored to
			u, ok := list.(*ssa.UnOp)
			if !ok || u.Op != token.MUL {
				c.bad(fname+"/label", pos, fname, "the labelled length is not the link list written by an append in this function")
				return
			}
			cellPath := path(u.X)
			var best *appendStore
			for _, a := range appends {
				if a.fn == fn && a.store != nil && a.cell == cellPath && dominatesInstr(a.store, u) {
					if best == nil || dominatesInstr(best.store, a.store) {
						best = a
					}
				}
			}
			if best == nil {
				c.bad(fname+"/label", pos, fname, "no append to the labelled list dominates this label: a label without its own target")
				return
			}
			best.labels++
			best.sites = append(best.sites, call)
			// nothing that can append between the store and the load
			var culprit ssa.Instruction
			for _, mid := range instrsBetween(best.store, u) {
				if ci, ok := mid.(ssa.CallInstruction); ok {
					for _, callee := range P.Callees(ci) {
						if mayAppend[callee] {
							culprit = mid
						}
					}
				}
				if st, ok := mid.(*ssa.Store); ok && path(st.Addr) == cellPath {
					culprit = mid
				}
			}
			if culprit != nil {
				c.bad(fname+"/label", pos, fname,
					"the label is len(list) read after "+describeInstr(P, culprit)+", which can append further targets: a link that contains other links or media gets the number of its last descendant, and its own number is never shown")
				return
			}
			c.ok(fname+"/label", pos, fname, "label = len(list) read right after its own append; nothing in between can append")
		})
	}
	for _, a := range appends {
		c.check(a.labels == 1, FuncName(a.fn)+"/append", P.InstrPos(a.call), FuncName(a.fn),
			"this link target has exactly one label", fmt.Sprintf("this link target is labelled %d times (a target without a number cannot be opened; two numbers for one target shift the others)", a.labels))
		// … and on every way out of the function after the append: a target that is listed
		// on a path where its number is never shown shifts every later number by one
		if a.labels != 1 || len(a.sites) != 1 || a.sites[0].Parent() != a.fn || !dominatesInstr(a.call, a.sites[0]) {
			continue
		}
		site := a.sites[0]
		escape := ""
		if site.Block() != a.call.Block() {
			seen := map[*ssa.BasicBlock]bool{a.call.Block(): true}
			work := append([]*ssa.BasicBlock{}, a.call.Block().Succs...)
			for len(work) > 0 && escape == "" {
				b := work[len(work)-1]
				work = work[:len(work)-1]
				if seen[b] || b == site.Block() {
					continue
				}
				seen[b] = true
				if ret, ok := b.Instrs[len(b.Instrs)-1].(*ssa.Return); ok {
					escape = P.InstrPos(ret)
				}
				work = append(work, b.Succs...)
			}
		}
		c.check(escape == "", FuncName(a.fn)+"/append-shown", P.InstrPos(a.call), FuncName(a.fn), "every way out after this append passes the call that shows its number",
			"a target is added to the link list on a path that returns (at "+escape+") without its number being shown: every later link is numbered one higher than what selects it, and a number that is shown nowhere opens this target")
	}
	c.info("labels", nLabels)
	c.info("appends", len(appends))
}

// labelBeforeAppend recognises number = len(L)+1 where L is the link list as it
// is right before this link's own append(L, target).
func labelBeforeAppend(P *Program, fn *ssa.Function, label *ssa.Call, num ssa.Value, appends []*appendStore, mayAppend map[*ssa.Function]bool) (*appendStore, string) {
	bo, ok := unwrapLoad(num).(*ssa.BinOp)
	if !ok || bo.Op != token.ADD {
		return nil, ""
	}
	lenSide := bo.X
	if k, isC := constInt(bo.Y); !isC || k != 1 {
		if k2, isC2 := constInt(bo.X); !isC2 || k2 != 1 {
			return nil, ""
		}
		lenSide = bo.Y
	}
	lc, ok := lenSide.(*ssa.Call)
	if !ok {
		return nil, ""
	}
	if b, ok := lc.Call.Value.(*ssa.Builtin); !ok || b.Name() != "len" {
		return nil, ""
	}
	oneElement := func(a *appendStore) bool {
		if sl, ok := a.call.Call.Args[1].(*ssa.Slice); ok {
			if al, ok := sl.X.(*ssa.Alloc); ok {
				if arr, ok := deref(al.Type()).Underlying().(*types.Array); ok && arr.Len() == 1 {
					return true
				}
			}
		}
		return false
	}
	u, ok := lc.Call.Args[0].(*ssa.UnOp)
	if !ok || u.Op != token.MUL {
		// the list is an SSA value (a local that is never captured): the append
		// must extend this very value
		for _, a := range appends {
			if a.fn == fn && unwrapLoad(a.call.Call.Args[0]) == unwrapLoad(lc.Call.Args[0]) && dominatesInstr(label, a.call) {
				if !oneElement(a) {
					return nil, "the append that follows the label does not add exactly one target"
				}
				return a, ""
			}
		}
		return nil, ""
	}
	cell := path(u.X)
	for _, a := range appends {
		if a.fn != fn || a.store == nil || a.cell != cell || !dominatesInstr(u, a.call) || !dominatesInstr(label, a.call) {
			continue
		}
		// the append extends the same list state by exactly one element
		base, ok := a.call.Call.Args[0].(*ssa.UnOp)
		if !ok || base.Op != token.MUL || path(base.X) != cell {
			continue
		}
		one := false
		if sl, ok := a.call.Call.Args[1].(*ssa.Slice); ok {
			if al, ok := sl.X.(*ssa.Alloc); ok {
				if arr, ok := deref(al.Type()).Underlying().(*types.Array); ok && arr.Len() == 1 {
					one = true
				}
			}
		}
		if !one {
			return nil, "the append that follows the label does not add exactly one target"
		}
		for _, mid := range instrsBetween(u, a.call) {
			if ci, ok := mid.(ssa.CallInstruction); ok {
				for _, callee := range P.Callees(ci) {
					if mayAppend[callee] {
						return nil, "the label is len(list)+1 but " + describeInstr(P, mid) + " can append further targets before this link's own append"
					}
				}
			}
			if st, ok := mid.(*ssa.Store); ok && path(st.Addr) == cell {
				return nil, "the link list is assigned between the label's len(list)+1 and the append"
			}
		}
		return a, ""
	}
	return nil, ""
}

func describeInstr(P *Program, in ssa.Instruction) string {
	if cc := callOf(in); cc != nil {
		if sc := cc.StaticCallee(); sc != nil {
			return "the call of " + sc.Name() + " at " + P.InstrPos(in)
		}
		return "the call at " + P.InstrPos(in)
	}
	return "the instruction at " + P.InstrPos(in)
}

// instrsBetween: instructions that may execute after `from` and before `to`
// (from dominates to).
func instrsBetween(from, to ssa.Instruction) []ssa.Instruction {
	var out []ssa.Instruction
	if from.Block() == to.Block() {
		instrs := from.Block().Instrs
		for i := instrIndex(from) + 1; i < instrIndex(to); i++ {
			out = append(out, instrs[i])
		}
		return out
	}
	fb, tb := from.Block(), to.Block()
	out = append(out, fb.Instrs[instrIndex(from)+1:]...)
	out = append(out, tb.Instrs[:instrIndex(to)]...)
	for _, b := range fb.Parent().Blocks {
		if b == fb || b == tb {
			continue
		}
		if blockReaches(fb, b) && blockReaches(b, tb) {
			out = append(out, b.Instrs...)
		}
	}
	return out
}

func c12R2(c *Ctx) {
	P := c.P
	// labels in pub: attachments
	for _, fn := range P.FuncsIn("servitor/pub") {
		fname := FuncName(fn)
		eachInstr(fn, func(_ *ssa.BasicBlock, _ int, in ssa.Instruction) {
			call, ok := in.(*ssa.Call)
			if !ok || !isLabelCall(&call.Call) {
				return
			}
			label := lin(call.Call.Args[len(call.Call.Args)-1])
			// the slot: the range index used to pick the labelled attachment
			// expected form: len(recv.X) + idx + 1
			var lenSym, idxSym string
			okForm := label.c == 1 && len(label.coef) == 2
			for s, k := range label.coef {
				if k != 1 {
					okForm = false
				}
				if strings.HasPrefix(s, "len(") {
					lenSym = s
				} else {
					idxSym = s
				}
			}
			if !okForm || lenSym == "" || idxSym == "" {
				c.bad(fname+"/attachment-label", P.InstrPos(in), fname, "attachment label is not len(text links) + slot + 1: "+label.String())
				return
			}
			// the selecting method of the same type
			recvT := namedOf(fn.Signature.Recv().Type())
			sel := P.Method("servitor/pub", recvT.Obj().Name(), "SelectLink")
			selIn := lin(sel.Params[1])
			var found bool
			eachInstr(sel, func(_ *ssa.BasicBlock, _ int, sin ssa.Instruction) {
				ia, ok := sin.(*ssa.IndexAddr)
				if !ok {
					return
				}
				seq := normSym(ia.X)
				if !strings.Contains(seq, "attachments") {
					return
				}
				found = true
				f := lin(ia.Index)
				// substitute input := label
				k := int64(0)
				for s, v := range selIn.coef {
					k = f.coef[s] / v
					_ = s
				}
				composed := f.add(selIn, -k).add(label, k)
				okInv := composed.c == 0 && len(composed.coef) == 1 && composed.coef[idxSym] == 1
				c.check(okInv, FuncName(sel)+"/attachment-lookup", P.InstrPos(sin), FuncName(sel),
					"lookup(label(slot)) = slot: "+f.String()+" with input := "+label.String(),
					"typing the number shown next to attachment i does not select attachment i: lookup index "+f.String()+" composed with label "+label.String()+" gives "+composed.String())
			})
			c.check(found, FuncName(sel)+"/attachment-lookup-exists", P.Pos(sel.Pos()), FuncName(sel), "SelectLink indexes the attachments", "attachments are labelled but SelectLink never indexes them")
			// the labelled text belongs to the attachment in that very slot
			c.ok(fname+"/attachment-label", P.InstrPos(in), fname, "attachment label = "+label.String())
		})
	}
	// text links: lookup index = input - 1
	pairedMarkup := map[ssa.Value]bool{}
	defer func() {
		// every text that is rendered with numbers hands its links to a lookup: no
		// GetMarkup call besides the paired ones (a second text whose link list is
		// dropped shows numbers, from 1 again, that select another text's targets)
		gm := P.Method("servitor/object", "Object", "GetMarkup")
		for _, e := range P.Callers(gm) {
			if e.Site == nil || e.Caller.Func.Synthetic != "" {
				continue
			}
			if v, ok := e.Site.(ssa.Value); ok && pairedMarkup[v] {
				continue
			}
			c.bad(FuncName(e.Caller.Func)+"/markup-without-lookup", P.InstrPos(e.Site), FuncName(e.Caller.Func), "a text is turned into markup whose link list is not the one a SelectLink looks numbers up in: the numbers it shows (counted from 1) open the targets of another text, or nothing")
		}
	}()
	for _, tn := range []string{"Post", "Actor"} {
		sel := P.Method("servitor/pub", tn, "SelectLink")
		selIn := lin(sel.Params[1])
		listName := map[string]string{"Post": "bodyLinks", "Actor": "bioLinks"}[tn]
		found := false
		eachInstr(sel, func(_ *ssa.BasicBlock, _ int, sin ssa.Instruction) {
			ia, ok := sin.(*ssa.IndexAddr)
			if !ok || !strings.Contains(normSym(ia.X), listName) {
				return
			}
			found = true
			f := lin(ia.Index)
			want := selIn
			want.c -= 1
			d := f.add(want, -1)
			c.check(d.isConst() && d.c == 0, FuncName(sel)+"/text-link-lookup", P.InstrPos(sin), FuncName(sel),
				"text link k is "+listName+"[k-1] (labels are list positions + 1 by R1)", "text link lookup index is "+f.String()+", expected input-1")
		})
		c.check(found, FuncName(sel)+"/text-link-lookup-exists", P.Pos(sel.Pos()), FuncName(sel), "SelectLink indexes "+listName, "SelectLink no longer indexes "+listName)
		// pairing: X and XLinks stored from the same GetMarkup call
		ctor := P.Func("servitor/pub", "New"+tn+"FromObject")
		textName := map[string]string{"Post": "body", "Actor": "bio"}[tn]
		var textCall, linksCall ssa.Value
		eachInstr(ctor, func(_ *ssa.BasicBlock, _ int, in ssa.Instruction) {
			st, ok := in.(*ssa.Store)
			if !ok {
				return
			}
			fa, ok := st.Addr.(*ssa.FieldAddr)
			if !ok {
				return
			}
			ex, ok := st.Val.(*ssa.Extract)
			if !ok {
				return
			}
			switch fieldOf(fa).Name() {
			case textName:
				if ex.Index == 0 {
					textCall = ex.Tuple
				}
			case listName:
				if ex.Index == 1 {
					linksCall = ex.Tuple
				}
			}
		})
		okPair := textCall != nil && textCall == linksCall
		if okPair {
			if call, ok := textCall.(*ssa.Call); !ok || call.Call.StaticCallee() == nil || call.Call.StaticCallee() != P.Method("servitor/object", "Object", "GetMarkup") {
				okPair = false
			}
		}
		c.check(okPair, FuncName(ctor)+"/text-links-paired", P.Pos(ctor.Pos()), FuncName(ctor),
			textName+" and "+listName+" are results #0/#1 of one GetMarkup call", textName+" and "+listName+" do not come from the same GetMarkup call: numbers shown in the text select targets of another text")
		if okPair {
			pairedMarkup[textCall] = true
		}
		// the list that is looked up in is the list that was numbered: nothing else is stored into it
		if lf := P.FieldOpt("servitor/pub", tn, listName); lf != nil {
			for _, st := range storesToField(P, lf) {
				ex, isEx := st.Val.(*ssa.Extract)
				c.check(isEx && ex.Index == 1 && ex.Tuple == linksCall, FuncName(st.Parent())+"/links-rewritten:"+listName, P.InstrPos(st), FuncName(st.Parent()),
					listName+" is the list the renderer numbered", listName+" is replaced by another list after the renderer has numbered its links (filtered, resolved, reordered): the numbers shown no longer select the targets they stand next to")
			}
		}
	}
	// Activity delegates both to the same target
	act := P.Method("servitor/pub", "Activity", "SelectLink")
	okDel := false
	eachInstr(act, func(_ *ssa.BasicBlock, _ int, in ssa.Instruction) {
		call, ok := in.(*ssa.Call)
		if ok && call.Call.IsInvoke() && call.Call.Method.Name() == "SelectLink" && strings.HasSuffix(path(call.Call.Value), ".&target.*") && unwrapLoad(call.Call.Args[0]) == ssa.Value(act.Params[1]) {
			okDel = true
		}
	})
	c.check(okDel, FuncName(act)+"/delegates", P.Pos(act.Pos()), FuncName(act), "Activity.SelectLink(k) = target.SelectLink(k)", "Activity.SelectLink does not pass the same number to the target it renders")
	astr := P.Method("servitor/pub", "Activity", "String")
	okStr := false
	eachInstr(astr, func(_ *ssa.BasicBlock, _ int, in ssa.Instruction) {
		call, ok := in.(*ssa.Call)
		if ok && call.Call.IsInvoke() && call.Call.Method.Name() == "String" && strings.HasSuffix(path(call.Call.Value), ".&target.*") {
			okStr = true
		}
	})
	c.check(okStr, FuncName(astr)+"/renders-target", P.Pos(astr.Pos()), FuncName(astr), "Activity.String renders the same target", "Activity.String does not render the target that SelectLink selects from")
}

func c12R3(c *Ctx) {
	P := c.P
	tangible := P.NamedType("servitor/pub", "Tangible")
	_ = tangible
	n := 0
	for _, fn := range P.FuncsIn("servitor/pub") {
		if fn.Name() != "SelectLink" {
			continue
		}
		fname := FuncName(fn)
		eachInstr(fn, func(b *ssa.BasicBlock, _ int, in ssa.Instruction) {
			ia, ok := in.(*ssa.IndexAddr)
			if !ok {
				return
			}
			n++
			lo, hi := indexInBounds(ia.Index, ia.X, b)
			why := ""
			if !lo {
				why = "no dominating test establishes index >= 0 (link number 0 or a negative number indexes below the list and panics)"
			}
			if !hi {
				why += " no dominating test establishes index < len"
			}
			c.check(lo && hi, fname+"/index:"+shortSym(normSym(ia.X)), P.InstrPos(in), fname,
				"0 <= "+lin(ia.Index).String()+" < len proven from the branch facts", "SelectLink indexes "+shortSym(normSym(ia.X))+" with "+lin(ia.Index).String()+":"+why)
		})
		// out-of-range edges return false
		for _, b := range fn.Blocks {
			if ret, ok := b.Instrs[len(b.Instrs)-1].(*ssa.Return); ok && len(ret.Results) == 3 {
				if cst, ok := ret.Results[2].(*ssa.Const); ok && cst.Value != nil && cst.Value.String() == "false" {
					s, isC := constString(ret.Results[0])
					c.check(isC && s == "" && isNilConst(ret.Results[1]), fname+"/return:none", P.InstrPos(ret), fname, "nothing is opened", "a 'not present' result still carries a link")
				}
			}
		}
	}
	c.info("selectlink_indexings", n)
}

func c12R4(c *Ctx) {
	P := c.P
	md := P.Func("servitor/markdown", "NewMarkup")
	hn := P.Func("servitor/hypertext", "NewMarkup")
	name := FuncName(md)
	ok := false
	for _, b := range md.Blocks {
		ret, isRet := b.Instrs[len(b.Instrs)-1].(*ssa.Return)
		if !isRet || !tupleForward(ret) {
			continue
		}
		ex := ret.Results[1].(*ssa.Extract)
		if call, isCall := ex.Tuple.(*ssa.Call); isCall && call.Call.StaticCallee() == hn {
			ok = true
		}
	}
	c.check(ok, name+"/forwards-links", P.Pos(md.Pos()), name, "returns hypertext.NewMarkup's (markup, links, error) unchanged", "markdown.NewMarkup does not forward the link list of the HTML it renders")
}

// c12R5: the link list is computed once (at construction) and reused for every
// width, so whether a target is appended must not depend on the width: no
// branch condition that dominates an append may be derived from a width.
func c12R5(c *Ctx) {
	P := c.P
	f := flowAll(P)
	// width origins: integer parameters named as the width of the render functions and the context's width field
	isWidthNode := func(n int) bool {
		k := f.keys[n]
		switch k.kind {
		case nValue:
			if p, ok := k.v.(*ssa.Parameter); ok && isInteger(p.Type()) {
				pk := P.PkgOf(p.Parent())
				for _, m := range markupPkgs {
					if pk == m {
						return true
					}
				}
			}
		case nField:
			if k.f.Name() == "width" && isInteger(k.f.Type()) {
				return true
			}
		}
		return false
	}
	for _, a := range findAppends(P, markupPkgs) {
		fn := a.fn
		at := a.call.Block()
		problem := ""
		for _, fact := range factsOf(fn).At(at) {
			_, visited := f.Backward(f.val(fact.Cond), func(n int) bool { return isWidthNode(n) })
			for n := range visited {
				if isWidthNode(n) {
					problem = "the append is guarded by a condition that depends on the width (" + f.describe(n, flowEdge{}) + ")"
				}
			}
		}
		c.check(problem == "", FuncName(fn)+"/append-width-independent", P.InstrPos(a.call), FuncName(fn),
			"whether this target is numbered does not depend on the width", "the set of numbered targets changes with the width, but the list used by SelectLink is the one computed at construction: "+problem+" — at such widths every later number opens the wrong target")
	}
}

// lenAfterOwnAppend: num is len(list) read right after an append to that list
// (result of the append itself, or a load of the cell it was stored to, with
// nothing in between that can append). The append it belongs to.
func lenAfterOwnAppend(P *Program, fn *ssa.Function, num ssa.Value, appends []*appendStore, mayAppend map[*ssa.Function]bool) (*appendStore, string) {
	lc, ok := unwrapLoad(num).(*ssa.Call)
	if !ok {
		return nil, "the number is not len(link list)"
	}
	if b, ok := lc.Call.Value.(*ssa.Builtin); !ok || b.Name() != "len" {
		return nil, "the number is not len(link list)"
	}
	list := lc.Call.Args[0]
	for _, a := range appends {
		if unwrapLoad(list) == ssa.Value(a.call) {
			return a, ""
		}
	}
	u, ok := list.(*ssa.UnOp)
	if !ok || u.Op != token.MUL {
		return nil, "the length is not that of the link list written by an append in this function"
	}
	cellPath := path(u.X)
	var best *appendStore
	for _, a := range appends {
		if a.fn == fn && a.store != nil && a.cell == cellPath && dominatesInstr(a.store, u) {
			if best == nil || dominatesInstr(best.store, a.store) {
				best = a
			}
		}
	}
	if best == nil {
		return nil, "no append to the list dominates the length that is recorded: a number without its own target"
	}
	for _, mid := range instrsBetween(best.store, u) {
		if ci, ok := mid.(ssa.CallInstruction); ok {
			for _, callee := range P.Callees(ci) {
				if mayAppend[callee] {
					return nil, "the recorded number is len(list) read after " + describeInstr(P, mid) + ", which can append further targets"
				}
			}
		}
		if st, ok := mid.(*ssa.Store); ok && path(st.Addr) == cellPath {
			return nil, "the recorded number is len(list) read after another append"
		}
	}
	return best, ""
}

// carriedLabel: the label printed at `call` is field f of a record. Every
// store into f in the module is looked at together with the store into the
// record's discriminating field g — the field the print site tests
// (`switch b.kind { case linkBlock: … b.number`) — made on the same record in
// the same block: wherever the record can be of the printed kind, what goes
// into f is len(list) right after the link's own append. Where both values are
// phis of one join (the returns of an inlined classifier), they are taken edge
// by edge. Each such store counts as the one label of its append.
func carriedLabel(P *Program, fn *ssa.Function, call *ssa.Call, num ssa.Value, f *types.Var, appends []*appendStore, mayAppend map[*ssa.Function]bool, counted map[*ssa.Store]bool) (bool, string) {
	// the guard of the print site: <field g of the same struct> == K
	var g *types.Var
	var K *ssa.Const
	for _, fact := range factsOf(fn).At(call.Block()) {
		cmp, ok := fact.Cmp()
		if !ok || cmp.Op != token.EQL {
			continue
		}
		for _, side := range [][2]ssa.Value{{cmp.X, cmp.Y}, {cmp.Y, cmp.X}} {
			k, isC := side[1].(*ssa.Const)
			gf := loadedField(side[0])
			if isC && gf != nil && gf != f && sameStruct(gf, f) {
				g, K = gf, k
			}
		}
	}
	stores := storesToField(P, f)
	if len(stores) == 0 {
		return false, "the number printed next to a link is read from a field that is never filled"
	}
	for _, st := range stores {
		sfn := st.Parent()
		fa := st.Addr.(*ssa.FieldAddr)
		// the kind stored into the same record in the same block
		var kindVal ssa.Value
		if g != nil {
			for _, in := range st.Block().Instrs {
				if st2, ok := in.(*ssa.Store); ok {
					if fa2, ok := st2.Addr.(*ssa.FieldAddr); ok && fieldOf(fa2) == g && fa2.X == fa.X {
						kindVal = st2.Val
					}
				}
			}
			if kindVal == nil {
				return false, "a record's number is filled at " + P.InstrPos(st) + " without its kind being set alongside: which records are printed with that number cannot be established"
			}
		}
		type pair struct{ kind, num ssa.Value }
		var pairs []pair
		nph, nIsPhi := st.Val.(*ssa.Phi)
		kph, kIsPhi := kindVal.(*ssa.Phi)
		switch {
		case nIsPhi && kIsPhi && nph.Block() == kph.Block():
			for i := range nph.Edges {
				pairs = append(pairs, pair{kph.Edges[i], nph.Edges[i]})
			}
		case nIsPhi:
			for _, e := range nph.Edges {
				pairs = append(pairs, pair{kindVal, e})
			}
		case kIsPhi:
			for _, e := range kph.Edges {
				pairs = append(pairs, pair{e, st.Val})
			}
		default:
			pairs = append(pairs, pair{kindVal, st.Val})
		}
		for _, pr := range pairs {
			if K != nil && pr.kind != nil {
				if kc, isC := pr.kind.(*ssa.Const); isC && kc.Value != nil && K.Value != nil && kc.Value.ExactString() != K.Value.ExactString() {
					continue // a record of another kind: its number is never printed
				}
			}
			a, why := lenAfterOwnAppend(P, sfn, pr.num, appends, mayAppend)
			if a == nil {
				return false, "the number printed next to a link is carried in a record field, and what is put there at " + P.InstrPos(st) + " does not qualify: " + why
			}
			if !counted[st] {
				a.labels++
			}
		}
		counted[st] = true
	}
	return true, ""
}

func sameStruct(a, b *types.Var) bool {
	if a.Pkg() != b.Pkg() {
		return false
	}
	for _, n := range a.Pkg().Scope().Names() {
		tn, ok := a.Pkg().Scope().Lookup(n).(*types.TypeName)
		if !ok {
			continue
		}
		st, ok := tn.Type().Underlying().(*types.Struct)
		if !ok {
			continue
		}
		hasA, hasB := false, false
		for i := 0; i < st.NumFields(); i++ {
			if st.Field(i) == a {
				hasA = true
			}
			if st.Field(i) == b {
				hasB = true
			}
		}
		if hasA || hasB {
			return hasA && hasB
		}
	}
	return false
}
