#!/bin/bash
# Re-bases seeded patches that no longer apply to /repo HEAD (a later fix: commit touched the same lines):
# 3-way applies the original patch in the scratch worktree /tmp/scratch/w2 and stores the result as patch.diff
# (the original is kept as patch.orig.diff). Prints the ids that were re-based; demos must then be re-confirmed.
W=/tmp/scratch/w2
HEAD=$(git -C /repo rev-parse HEAD)
cd $W || exit 1
for d in /verif/seeded/*/; do
  id=$(basename $d)
  git checkout -q --detach $HEAD && git checkout -q -- . && git clean -fdq
  if git apply --check $d/patch.diff 2>/dev/null; then continue; fi
  if git apply -3 $d/patch.diff >/dev/null 2>&1 && [ -z "$(git diff --name-only --diff-filter=U)" ]; then
    [ -f $d/patch.orig.diff ] || cp $d/patch.diff $d/patch.orig.diff
    git diff HEAD > $d/patch.diff
    echo "rebased $id"
  else
    echo "CONFLICT $id"
  fi
  git reset -q --hard $HEAD
done
git checkout -q -- . && git clean -fdq
