#!/usr/bin/env python3
"""Assemble /verif/seeded/<id>/ from the sub-agents' deliverables (/tmp/seed/<P>/out) and the
validation results produced by tools/seedcheck.py (<resdir>/<P>-<k>.json).
usage: collect_seeded.py <resdir> [<suffix>]"""
import json, os, re, shutil, sys, glob

resdir = sys.argv[1]
suffix = sys.argv[2] if len(sys.argv) > 2 else ""
props = {}
for l in open('/verif/properties.jsonl'):
    p = json.loads(l)
    props[p['id']] = p

kept, dropped = [], []
for f in sorted(glob.glob(os.path.join(resdir, '*.json'))):
    name = os.path.basename(f)[:-5]            # C03-1
    prop, k = name.split('-')
    try:
        r = json.load(open(f))
    except Exception:
        dropped.append((name, 'validation output unreadable'))
        continue
    src = f'/tmp/seed/{prop}{suffix}/out'
    ok = (r.get('applies') and r.get('builds') and not r.get('existing_tests_fail')
          and r.get('demo_without_change') and all(v == 'pass' for v in r['demo_without_change'].values())
          and r.get('demo_with_change') and any(v == 'FAIL' for v in r['demo_with_change'].values()))
    if not ok:
        dropped.append((name, 'not confirmed: ' + json.dumps({k2: r.get(k2) for k2 in ['applies', 'builds', 'existing_tests_fail', 'demo_without_change', 'demo_with_change']})))
        continue
    sid = f'{name}{suffix}'
    dst = f'/verif/seeded/{sid}'
    shutil.rmtree(dst, ignore_errors=True)
    os.makedirs(dst)
    shutil.copy(f'{src}/change{k}.diff', f'{dst}/patch.diff')
    if os.path.isdir(f'{src}/change{k}_demo'):
        shutil.copytree(f'{src}/change{k}_demo', f'{dst}/demo')
    notes = ''
    if os.path.exists(f'{src}/change{k}.md'):
        shutil.copy(f'{src}/change{k}.md', f'{dst}/notes.md')
        notes = open(f'{src}/change{k}.md').read()
    own = sorted(rr for rr in r.get('servcheck_violations', {}) if rr.startswith(prop))
    other = sorted(rr for rr in r.get('servcheck_violations', {}) if not rr.startswith(prop))
    # first paragraph of the notes that talks about what is needed
    needs = ''
    m = re.search(r'(?is)(what is needed|needs?|trigger|manifest)[^\n]*\n(.{0,900})', notes)
    if m:
        needs = (m.group(0)).strip()[:900]
    demo_pkgs = sorted(r['demo_with_change'].keys())
    tests = []
    for root, _, files in os.walk(f'{dst}/demo') if os.path.isdir(f'{dst}/demo') else []:
        for fn in files:
            if fn.endswith('.go'):
                tests += re.findall(r'^func (Test\w+)\(', open(os.path.join(root, fn)).read(), re.M)
    tests = sorted(t for t in set(tests) if t != 'TestMain')
    meta = {
        'id': sid,
        'breaks_property': prop,
        'property_title': props[prop]['title'],
        'source': 'fresh sub-agent given only the property text and a scratch worktree of /repo at ' + os.popen('git -C /repo rev-parse --short HEAD').read().strip(),
        'needs_to_manifest': needs,
        'confirmed_by_me': {
            'how': 'tools/seedcheck.py: git apply patch.diff in a scratch worktree of /repo HEAD (never /repo itself); go build ./...; go test -vet=off -count=1 ./... (only jtp TestBasic/TestRedirect fail, as on the unchanged tree); demonstration copied into place and run with and without the patch',
            'builds': True,
            'existing_tests_pass': True,
            'demo_packages': demo_pkgs,
            'demo_tests': tests,
            'demo_without_patch': r['demo_without_change'],
            'demo_with_patch': r['demo_with_change'],
            'race_detector_used': r.get('race_detector', True),
            'run_demo': f"copy demo/* over a checkout with patch.diff applied; XDG_CONFIG_HOME=$(mktemp -d) go test -vet=off -count=1 -run '^({'|'.join(tests)})$' " + ' '.join('./' + p for p in demo_pkgs),
        },
        'detected_by_own_property_rules': own,
        'also_reported_by': other,
        'detected': bool(own),
    }
    json.dump(meta, open(f'{dst}/meta.json', 'w'), indent=1)
    kept.append((sid, own, other))

print('kept', len(kept))
for s, own, other in kept:
    print(' ', s, 'OWN', own, 'OTHER', other)
print('dropped', len(dropped))
for n, why in dropped:
    print(' ', n, why[:300])
