#!/usr/bin/env python3
"""Refresh the detection fields of every /verif/seeded/<id>/meta.json with the current checker.
usage: redetect.py [servcheck binary]
Each patch is applied in the scratch worktree /tmp/scratch/w2 (never /repo), `servcheck -all` is run on it,
and the rules that report a violation are recorded. The first detection result is kept as
'detected_when_first_run' so that the history (what the checks missed before being strengthened) stays visible."""
import json, os, re, subprocess, sys, glob
BIN = sys.argv[1] if len(sys.argv) > 1 else '/verif/bin/servcheck'
W = '/tmp/scratch/w2'
ENV = dict(os.environ, GOFLAGS='-mod=mod', GOPROXY='off', GOSUMDB='off', GOTOOLCHAIN='local')
head = subprocess.check_output('git -C /repo rev-parse HEAD', shell=True, text=True).strip()
def sh(c):
    return subprocess.run(c, shell=True, cwd=W, env=ENV, capture_output=True, text=True)
for d in sorted(glob.glob('/verif/seeded/*/')):
    meta = json.load(open(d + 'meta.json'))
    prop = meta['breaks_property']
    if meta.get('obsolete_since'):
        print(meta['id'], 'obsolete, skipped'); continue
    sh(f'git checkout -q --detach {head} && git checkout -q -- . && git clean -fdq')
    if sh(f'git apply {d}patch.diff').returncode != 0:
        print(meta['id'], 'NOAPPLY'); continue
    out = sh(f'{BIN} -all -repo {W} -verif /tmp/scratch/v2').stdout
    sh('git checkout -q -- . && git clean -fdq')
    rules = sorted(set(re.findall(r'^  rule (C\d\d\.[A-Z]\d+)', out, re.M)))
    own = [r for r in rules if r.startswith(prop)]
    other = [r for r in rules if not r.startswith(prop)]
    if 'detected_when_first_run' not in meta:
        meta['detected_when_first_run'] = {'own': meta.get('detected_by_own_property_rules', []), 'other': meta.get('also_reported_by', [])}
    meta['detected_by_own_property_rules'] = own
    meta['also_reported_by'] = other
    meta['detected'] = bool(own)
    json.dump(meta, open(d + 'meta.json', 'w'), indent=1)
    print(f"{meta['id']:9s} own={own} other={other}")
