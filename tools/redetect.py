#!/usr/bin/env python3
"""Refresh the detection fields of every /verif/seeded/<id>/meta.json with the current checker.
usage: redetect.py [servcheck binary]
Each patch is applied in one of six scratch worktrees /tmp/scratch/lane1..6 (never /repo), `servcheck -all` is run on it,
and the rules that report a violation are recorded. The first detection result is kept as
'detected_when_first_run' so that the history (what the checks missed before being strengthened) stays visible.
A run that ends in anything but exit status 0 or 1 is recorded as 'checker_broken' and printed."""
import json, os, re, subprocess, sys, glob
from concurrent.futures import ThreadPoolExecutor
BIN = sys.argv[1] if len(sys.argv) > 1 else '/verif/bin/servcheck'
ENV = dict(os.environ, GOFLAGS='-mod=mod', GOPROXY='off', GOSUMDB='off', GOTOOLCHAIN='local')
head = subprocess.check_output('git -C /repo rev-parse HEAD', shell=True, text=True).strip()
dirs = sorted(glob.glob('/verif/seeded/*/'))
def lane_work(lane):
    W = f'/tmp/scratch/lane{lane}'
    if not os.path.isdir(W):
        subprocess.run(f'git -C /repo worktree add -q --detach {W} HEAD', shell=True)
    def sh(c):
        return subprocess.run(c, shell=True, cwd=W, env=ENV, capture_output=True, text=True)
    out_lines = []
    for d in dirs[lane-1::6]:
        meta = json.load(open(d + 'meta.json'))
        prop = meta['breaks_property']
        if meta.get('obsolete_since'):
            out_lines.append(f"{meta['id']} obsolete, skipped"); continue
        sh(f'git checkout -q --detach {head} && git checkout -q -- . && git clean -fdq')
        if sh(f'git apply {d}patch.diff').returncode != 0:
            out_lines.append(f"{meta['id']} NOAPPLY"); continue
        r = sh(f'{BIN} -all -repo {W} -verif /tmp/scratch/vlane{lane}')
        sh('git checkout -q -- . && git clean -fdq')
        out = r.stdout + r.stderr
        rules = sorted(set(re.findall(r'^  rule (C\d\d\.[A-Z]\d+)', out, re.M)))
        own = [x for x in rules if x.startswith(prop)]
        other = [x for x in rules if not x.startswith(prop)]
        if 'detected_when_first_run' not in meta:
            meta['detected_when_first_run'] = {'own': meta.get('detected_by_own_property_rules', []), 'other': meta.get('also_reported_by', [])}
        meta['detected_by_own_property_rules'] = own
        meta['also_reported_by'] = other
        meta['detected'] = bool(own)
        # seeds that come wrapped in a refactoring: what the refactoring alone (slip corrected) raises.
        # A rule counts as reporting the slip only with an obligation that the corrected refactoring does not raise.
        if os.path.exists(d + 'corrected_refactoring.diff'):
            obl = set(re.findall(r'^  rule (C\d\d\.[A-Z]\d+\s+\S+)', out, re.M))
            sh(f'git checkout -q --detach {head} && git checkout -q -- . && git clean -fdq')
            if sh(f'git apply {d}corrected_refactoring.diff').returncode == 0:
                r2 = sh(f'{BIN} -all -repo {W} -verif /tmp/scratch/vlane{lane}')
                out2 = r2.stdout + r2.stderr
                obl2 = set(re.findall(r'^  rule (C\d\d\.[A-Z]\d+\s+\S+)', out2, re.M))
                meta['corrected_refactoring_reported_by'] = sorted(set(x.split()[0] for x in obl2))
                spec = sorted(set(x.split()[0] for x in obl - obl2 if x.startswith(prop)))
                meta['own_rules_reporting_the_slip_itself'] = spec
            sh('git checkout -q -- . && git clean -fdq')
        if r.returncode not in (0, 1):
            meta['checker_broken'] = [l for l in out.splitlines() if l.startswith('CHECK-BROKEN') or l.startswith('panic')][:3]
        else:
            meta.pop('checker_broken', None)
        json.dump(meta, open(d + 'meta.json', 'w'), indent=1)
        extra = ''
        if 'own_rules_reporting_the_slip_itself' in meta:
            extra = f" slip={meta['own_rules_reporting_the_slip_itself']} refactoring_alone={meta.get('corrected_refactoring_reported_by')}"
        out_lines.append(f"{meta['id']:9s} own={own} other={other}{extra}" + (f" BROKEN rc={r.returncode}" if r.returncode not in (0, 1) else ''))
    return out_lines
with ThreadPoolExecutor(6) as ex:
    for lines in ex.map(lane_work, range(1, 7)):
        for l in lines:
            print(l)
