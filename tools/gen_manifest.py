#!/usr/bin/env python3
"""Generates /verif/MANIFEST.json from the table below (kept next to the checker
so the manifest, DESIGN.md and the rule registry stay in step)."""
import json, os, subprocess, sys

HERE = os.path.dirname(os.path.dirname(os.path.abspath(__file__)))

GOENV = "GOFLAGS=-mod=mod GOPROXY=off GOSUMDB=off GOTOOLCHAIN=local GOWORK=off"

CLAIMED = {
  "C01": dict(
    text="Whole-program static taint analysis over go/ssa with call/return matching (realizable paths, parameter->result summaries), field-based for servitor structs: it proves that on no path does a value derived from the TLS connection, a document file, a string asserted out of untyped JSON, or text re-materialised by the HTML parser (entity-decoded text nodes and attribute values, percent-decoded URL components) reach the terminal callback, a direct terminal write, or the text/preview/name of any item or any Markup.Render result without passing ansi.Scrub; the SGR parameter of ansi.Apply is shown to be built from constants and validated configuration colours only, and escape bytes in literals are confined to the SGR generator; results of library decoders (html.UnescapeString, url.PathUnescape, strconv.Unquote, base64/hex) are sources in their own right; and ansi.Scrub itself is shape-checked: every return is strings.Map over the input with a mapping function that keeps a rune only where it is a line feed or unicode.IsControl is known false. A sanitiser-before-sink property is visible in the shape of the code, so one rule instance covers every document, markup type, header line and width at once.",
    note="Trusted: propagate-by-default summaries for library calls (results and written-through arguments), net/url.Parse rejecting control characters and quoting its input in errors, x/net/html copying tag names/attribute keys verbatim, ansi.Scrub's predicate (unicode.IsControl) being the right class. Not decided: terminal-specific interpretation of printable code points.",
    technique="static interprocedural taint (value-flow) analysis over SSA with call/return matching; sanitiser-before-sink",
    ref="DESIGN.md §4 C01"),
  "C03": dict(
    text="Static path/dominance analysis of jtp.Get and its helpers over SSA: every return of the fetcher is classified (error / cache hit / forwarded recursive result / success) and the success return is shown to be dominated, in order, by the https test, the dial, a checked status-line parse, a status whitelist within 200..203 on every enumerated path, a checked validateHeaders on the request's own tolerated list, and a checked JSON decode of the same stream into the very map returned, with the frame's own URL as source. The redirect budget is shown to strictly decrease under a non-exhaustion guard (one dial and one write per frame, constant budget at call sites), Location is shown to be resolved against the issuing URL with missing Location an error, the content-type rule (at least one tolerated, none untolerated) is checked on validateHeaders' flag protocol, the status regexp's shape is checked with regexp/syntax, the cache is shown to be keyed by every request-shaping parameter, with the complete URL (link.String(): scheme and fragment included) inside the key, and never to store an outcome with a possibly non-nil error; and every string handed to a status/header recogniser or compared with the end-of-head marker is shown to be a complete line: result #0 of (*bufio.Reader).ReadString('\\n') (or a constant) at a point where that call's error is known nil, so a fragment of an over-long or truncated line is never parsed as a header; every singleflight key in the module is shown to be uri.String() of the URL fetched inside. These are all-paths statements about the code, so they cover every response byte stream and redirect graph.",
    note="Trusted: regexp, encoding/json, net/url, lru semantics. Not decided: that the header regexps recognise exactly the HTTP grammar; JSON decoding itself; LRU eviction; behaviour under concurrent identical fetches (singleflight).",
    technique="static must-pass-through (dominance + path enumeration) and table/shape rules over SSA",
    ref="DESIGN.md §4 C03"),
  "C04": dict(
    text="Static who-may-call, string-template and provenance rules: the whole module is scanned for call sites into network packages (net, crypto/tls, net/http, ... and dynamic Write invokes that VTA resolves to a connection) and they are shown to be exactly the single dial, single Write, Close and deadline calls of jtp.Get; the written bytes are symbolically flattened and compared with the request template over the frame's own URL and Accept value; the dial is shown to be TLS with default verification to JoinHostPort(link.Hostname(), link.Port()|443) under link.Scheme == https, a non-nil tls.Config being accepted only if no field outside a whitelist that cannot change whom the certificate is checked against (no ServerName, Certificates, InsecureSkipVerify, ...) is ever stored into one; a backward provenance walk over the value-flow graph shows that every *url.URL that can reach jtp.Get is produced by url.Parse or a literal with constant path parts and an Encode()d query, walking through both operands of ResolveReference / JoinPath (which copy query and fragment of their argument verbatim). Covers every URL and handle because it constrains how request bytes can be built at all.",
    note="Trusted: net/url's escaping and rejection of control characters; a host containing control characters cannot be dialled; crypto/tls verifies with a nil config. Not decided: what the TLS stack itself sends.",
    technique="static call-site inventory (who-may-call), symbolic string template evaluation, backward provenance over the value-flow graph",
    ref="DESIGN.md §4 C04"),
  "C05": dict(
    text="Static typestate and error-discipline analysis: for every connection value obtained from net/crypto/tls, every Write/Read/hand-off is shown to be dominated by a Set*Deadline call on that value whose argument is derived (backward value-flow) from time.Now() and config.Parsed.Network.Timeout and which is not renewed in a loop, and every dial to go through a net.Dialer whose Timeout is that configured value itself (not a derived quantity that can be zero); for all ~210 error-returning calls in jtp, client, object, pub and mime the error is shown to be returned, wrapped, converted to a failure item, stored beside its value or classified, and the accompanying values to be used only where the error is known nil (branch facts) or to travel with it; every NewFailure argument is shown non-nil; the response head is parsed from complete lines only (ReadString('\\n') with its error known nil at every use, rule shared with C03.R7), so a head cut off or stalled inside a line ends in an error instead of being acted on; every index into the pieces of a split text (strings.Fields / Split) is shown to be within the number of pieces known at that point (rule shared with C06.K9); package-level state of the fetch path is written by initialisers only (no map that two concurrent faults could write), and every acquisition on a channel that outlives the call (semaphore slot, token) is shown to be released on every path to every return, the error paths included. An all-paths argument: it holds for every cut point and stall stage because no path can read without a deadline or drop an error.",
    note="Trusted: net.Conn deadline semantics, json.Decoder rejecting truncated objects. Not decided: wall-clock bounds, kernel/TLS behaviour, non-positive configured timeouts (C19).",
    technique="static typestate (deadline-before-I/O dominance) + error-flow discipline over SSA with branch facts",
    ref="DESIGN.md §4 C05"),
  "C08": dict(
    text="Whole-program static lock-state dataflow (held / caller's / not held, defer-aware) over go/ssa with the VTA call graph, plus an effects (write-set) analysis of fan-out goroutines: every access to UI state, every emitted frame and every render-cache write is shown to happen with State.m held on every path; lock pairing, non-reentrancy, WaitGroup balance, pairwise disjoint write sets of concurrently running closures (captured variables of closures made elsewhere and handed over count as one shared cell) and read-only sharing of documents/configuration are decided for every function of the module; every store into a field of a pub item type (Post, Actor, Activity, Collection, Link, Failure) is shown to target the object the enclosing constructor has just allocated, so items, which loader goroutines read outside State.m and pages share, are never written after construction. All paths and all schedules are covered because the rule is a must-analysis over the code, not a sample of executions.",
    note="Trusted: go/types+go/ssa+VTA (x/tools v0.29.0), sync primitives, lru.Cache and singleflight.Group being internally synchronised, library callbacks being synchronous. Not decided: liveness under real schedulers, races inside dependencies, the deliberate lock hold on a failing sub-command.",
    technique="static lock-state must-dataflow + write-set (effects) disjointness over SSA and the VTA call graph",
    ref="DESIGN.md §4 C08"),
}

CLAIMED.update({
  "C17": dict(
    text="Static guard and shape analysis of package object over SSA: every float-to-integer conversion in the module is shown to be dominated by lower/upper range tests (and the integrality test) on the converted value using branch facts; package object is exhaustively scanned for may-panic constructs (non-comma-ok assertions, indexing, slicing, map writes, panics); GetString's value return is shown to be the non-empty result of ansi.Scrub of the checked getPrimitive[string] result, the text accessors to parse only GetString results; every instantiation of getPrimitive is shown to report 'absent' exactly on the missing/null edges, 'wrong type' on the failed assertion and the asserted value on success, no other error to wrap the 'absent' sentinel, and every error to come with zero values; the document map is read in getPrimitive only; pointer-valued accessors are shown to return non-nil with a nil error through their helpers; ansi.Scrub is shape-checked (every return passes the rune filter); list promotion is shape-checked. These hold for every JSON value because they are facts about all paths of ~140 lines of accessor code.",
    note="Trusted: encoding/json's decoding into float64/[]any/map[string]any; time.Parse, url.Parse and the media-type regexp. Not decided: that the converted integer equals the JSON number's value (value semantics of the conversion inside the guarded range).",
    technique="static guard-dominates-use (branch facts), exhaustive may-panic construct scan, sentinel/table agreement over SSA",
    ref="DESIGN.md §4 C17"),
  "C19": dict(
    text="Static dominance and table-agreement rules: config.parse is shown to return a configuration only for an empty location, a missing file, or a decode with nil error and no undecoded keys, with defaults stored first into the same object, and the package initialiser to exit non-zero after a diagnostic on every error; every field of Style.Colors (enumerated from the type) is shown to be replaced by hexToAnsi of itself with the error checked, hexToAnsi's slices to be guarded by len == 7 and its parses to be checked base 16; every read of a configuration value anywhere in the module is matched against a consumer table (exhaustive over reads), and for each consumer assumption a rejecting comparison inside package config is found and evaluated on boundary values; every scaling of a validated setting by a constant is shown to be dominated by an upper bound that keeps the product inside its type. Covers every TOML file because acceptance is a property of the code paths, not of sampled files.",
    note="Trusted: BurntSushi/toml's decoding and Undecoded(); ParseUint of two hex digits is 0..255. Not decided: TOML parsing itself.",
    technique="static dominance (strict decoding), writer/reader table agreement, consumer-assumption table with boundary evaluation of validating comparisons",
    ref="DESIGN.md §4 C19"),
  "C20": dict(
    text="Static shape, guard and identity-flow rules on ui.openExternally and its producers: the module is scanned for process-spawning call sites (exactly exec.Command + run in the hook; program not a constant); argv is shown to be element 0 / tail of a slice freshly made with the configured hook's length and filled by one copy from config.Parsed.Media.Hook; every other store into it is shown to be at an index known non-zero, on the equality edge of that very element against a constant placeholder, storing by SSA identity the link parameter or the matching field of the media type; the handled placeholders are compared with readme.md; Stdin is shown to be set only when the %url flag is false and to wrap the link itself; every (link, type, present) producer (Post/Actor/Activity/Failure.SelectLink, Media, Banner, ProfilePic, Link.Select*) is shown to return a non-nil type whenever present is true (value+Err pair guards and producer soundness); the only store into Media.Hook in the module is shown to be the default literal of constants. All hook configurations and links are covered because substitution is shown to be structurally element-wise and identity-preserving.",
    note="Trusted: os/exec passes argv verbatim to execve. Not decided: what the OS or the hook program does with the arguments.",
    technique="static shape matching on SSA with branch facts (exact-match substitution), identity-only value flow, non-nil producer analysis",
    ref="DESIGN.md §4 C20"),
})

CLAIMED.update({
  "C11": dict(
    text="Structural clauses of the feed property, decided statically: a module-wide nil-flow analysis shows that no pointer that may be nil is converted into a pub.Container / pub.Tangible / Any interface at any point where the interface escapes (returned, stored, passed on), using branch facts, value+error producer soundness and an assume-guarantee invariant for dynamically dispatched receivers — so an exhausted feed ends with a real nil; NewSplicer's type switch is compared with the set of dynamic types that can reach FetchUserInput's result in the value-flow graph; an effects analysis shows Splicer.Harvest never writes through its receiver and that buffered items shared with clones are never written in place; replenish is shown to visit every source and to refill exactly the sources whose own buffer is shorter than the requested depth, by the difference; every trip round microharvest's selection loop (all acyclic header-to-header paths, loop-carried values resolved along the path) is classified as keeping the best (allowed only for an empty source / nil head, or an existing best whose timestamp the head's is not After) or replacing it by the current head (only with no best yet, or strictly After: ties stay with the source listed first), nil is returned only where the best is known nil, and the popped source is the one recorded with the best; NewSplicer stores the page fetched for inputs[k] at s[k] of a Splicer with one slot per input. That these steps compose to an exactly-once merge for every chunking is NOT claimed.",
    note="Not decided (stated in DESIGN.md and in the evidence): exactly-once and idempotence of a feed position as values over all chunkings; only the per-step selection rule, the refill rule and the no-write/clone discipline are decided. Fan-out race freedom is decided under C08.R5.",
    technique="static nil-flow (typed-nil) analysis with branch facts, dynamic-type set vs. type-switch table agreement, write-set analysis, loop path enumeration with phi resolution (selection step)",
    ref="DESIGN.md §4 C11"),
  "C12": dict(
    text="Structural clauses of link numbering, decided statically: for every label call (style.Link / LinkBlock) in the three markup renderers the printed number is shown to be len(list) taken after the label's own append with no intervening call that can (transitively) append to the list, and every append to have exactly one label; attachment labels and SelectLink's index expressions are normalised to linear forms and composed to the identity; text and link list are shown to come from one GetMarkup call; every index in the SelectLink implementations is proven within bounds from the branch facts by a small linear-inequality prover; Markdown forwards the HTML link list. Survival of superscripts through wrapping is NOT claimed.",
    note="Not decided: that rendered superscripts survive wrapping at every width; width-independence of link order (string values).",
    technique="static ordering (append-before-label with no intervening appender), linear-form inverse agreement, guard-dominates-index with linear facts",
    ref="DESIGN.md §4 C12"),
  "C15": dict(
    text="Structural clauses, decided statically: in each of the three markup implementations the text returned by the function Render delegates to is shown (def-use) to be the trimmed result of ansi.Wrap/DumbWrap with exactly the requested width (sibling cross-check); Render is shown to return the cached text only on the cachedWidth == width edge and otherwise to store the fresh rendering together with the width it was rendered at; constructors initialise the pair from one rendering; nothing else writes it; an effects analysis shows the render functions write nothing but their own allocations and read no mutable package state, so the text is a function of content and width. The numeric width bound of the wrapping functions themselves is decided under C13.R1/R2.",
    note="That ansi.Wrap/DumbWrap honour their width is decided under C13.R1/R2, not here. Not decided: contents of the rendering.",
    technique="static def-use must-pass-through (final wrap), cache-pairing typestate, write-set (purity) analysis",
    ref="DESIGN.md §4 C15"),
})

CLAIMED.update({
  "C02": dict(
    text="Static provenance analysis: the pairing (document, URL that served it) / (object, validated id) is shown to stay intact from the socket to the item constructors. Every call of an item constructor is shown to receive results #0/#1 of one checked client.FetchUnknown call (or the stored parent pair under its error guard); a backward walk over the value-flow graph shows every source handed to FetchUnknown to be nil or an item's id field, itself stored only from the constructor's validated id, and embedded values to be taken from the constructor's own object with its own id; all ~90 acyclic paths of FetchUnknown to a success return are enumerated with phi operands resolved along the path, and on each the returned id is shown to be nil or to be the id of the returned object whose paired serving URL is known non-nil with an equal Host; FetchURL is shown to return one intact bundle of one jtp.Get call keyed by the URL; jtp.Get/FetchURL/FetchFromFile/ResolveWebfinger have only their documented callers. Necessary conditions over all paths: breaking any lets host A supply host B's object.",
    note="Trusted: singleflight returns the value for the same key; url.URL.Host is the dialled authority. Not decided: multi-host behaviour end to end; Host normalisation and case (library URL semantics); cache-state interactions beyond C03.R6.",
    technique="static provenance (def-use pairing), exhaustive path enumeration with phi resolution in the gatekeeper, backward value-flow walk, who-may-call",
    ref="DESIGN.md §4 C02"),
  "C09": dict(
    text="Static path-fact rules on the three membership gatekeepers: for the outbox and reply construct closures every return is shown to be either a NewFailure item (never nil: impostors stay in place as error items) or the item built by NewActivity/NewPost from the element handed in, on a path that knows owner id != nil, accessor() != nil and accessor().String() == id.String(); the outbox / replies / comments collections are shown to be built with the matching closure and the owner's id, Collection.construct to be stored only from the constructor parameter and every non-nil result of the constructor to be its own allocation (no remembered collection), harvest to deliver construct(elements[k], c.id) at its own slot and to pass construct on to the next page; NewPostFromObject's success return is shown to lie behind a loop over all creators (after the fan-out joined) in which every path back to the loop head knows equal hosts with both ids non-nil, or both ids nil, and which is left towards a success return only when the range is exhausted; identifier accessors return validated id fields under their error guards, and id fields are stored only from the constructors' id parameter.",
    note="Assumes the ids compared are the validated ids of C02. Not decided: generated worlds end to end; whether string equality of URLs is the right identity.",
    technique="static path facts (dominating comparisons on accepting paths) in gatekeeper closures, wiring/table agreement, path enumeration in the creators loop",
    ref="DESIGN.md §4 C09"),
})

CLAIMED.update({
  "C10": dict(
    text="Structural clauses of collection paging, decided statically on harvestWithEmptyCount and its two goroutine closures: the single recursion is shown to be dominated by the false edge of emptyCount > 3 on the very counter cell that is passed on, the counter to be incremented exactly on the page-is-empty edge, every early return to deliver one failure item with a nil continuation; all paths to the recursive spawn are enumerated and on each that does not increment the counter the last assignment is shown to be a constant (consecutive = reset); slot k is shown to receive construct(c.elements[k+startingPoint], c.id) by comparing linear index forms, the result to be this page's slice followed by the recursion's slice, the next page (built from c.next with checked error) to be asked for amount-amountFromThisPage from offset 0; the page names itself as continuation only under length > amount+startingPoint with resume offset amount+startingPoint, otherwise forwards the deeper continuation or nil; in the constructor every path to a store of the following-page link is enumerated and the key read (first / next) is shown to agree with the kind tests passed on that path (first only for (Ordered)Collection, next only for pages); an effects analysis shows Harvest and everything it calls to write nothing reachable from the collection and no package-level state. Exactly-once over all layouts is NOT claimed.",
    note="Not decided: that the pieces compose to exactly-once/in-order for every layout and chunking, prefix-of-truth on cyclic chains, unsigned arithmetic of amountFromThisPage. Fan-out race freedom: C08.R5.",
    technique="static dominance and path enumeration (counter discipline), linear-form index agreement, continuation-shape matching over SSA",
    ref="DESIGN.md §4 C10"),
})

CLAIMED.update({
  "C06": dict(
    text="Crash clause only, decided by static obligation classes over every function of the packages below the UI: K1 every type assertion is comma-ok or provably holds; K2 every dereference of the value of a value+Err pair is dominated by its error being nil and every producer stored into a pair is shown to return non-nil with a nil error (including slices whose every slot is filled by a checked constructor); K3 every strings.Repeat count, make size, non-constant index and slice bound that can depend on a width parameter or link number (forward value flow from all String/Preview/Render/SelectLink parameters) is proven in range from branch facts by a linear-inequality prover; K4 every index into a regexp match is checked against the pattern's capture structure (regexp/syntax) and shown guarded by a length test, a total pattern or FindAll, and first-rune extraction only on non-empty captures; K5 every explicit panic is discharged (non-negative labels into superscript, accepted Activity kinds ⊆ rendered kinds, non-nil harvest receivers, non-nil NewFailure arguments); K7 every call-graph SCC is in a table of recursions with a checked termination measure; K8 every dereference of a *url.URL anywhere in the module (field read or net/url method call; identifiers can be absent, so these pointers can be nil) is shown to be at a point where the pointer is provably non-nil — a dominating nil test, a checked url.Parse / ResolveReference result, the source of a successful fetch, or a parameter that every call site provides non-nil (assume-guarantee over the call graph, including (value, found, error) producers); K9 every index or slice bound applied to the result of strings.Fields, or a constant index above 0 into a strings.Split result, is shown to be within the length known at that point. The hang / resource clause is NOT claimed.",
    note="Not decided: the hang/memory clause (cost of nested indenting blocks — the property text records that the tree violates it with ~82 nested blockquotes; no sound static cost analysis is in reach), nil dereferences outside K2/K6/K8, and ~15 bounds checks resting on relational invariants, listed in the evidence as unclaimed sites. K6 (typed nil) is decided under C11.R1.",
    technique="static may-panic site enumeration with per-class discharge: branch facts + linear inequalities, regexp/syntax shape analysis, nil-flow, call-graph SCC table",
    ref="DESIGN.md §4 C06"),
  "C07": dict(
    text="Dispatcher coverage and crash obligations, decided statically: the keys documented in readme.md and in the help text are extracted and compared with the constants Update's dispatcher tests, and each documented key's case body is shown to call what the keymap names (swapped handlers are reported); every explicit panic in ui/feed/history is enumerated and must be one of the discharged ones — view's mode default (constants stored to State.mode ⊆ handled), switchTo's default (every argument's dynamic types handled and non-nil), feed.Get (dominated by Contains of the same offset on the same feed) — ReplaceLastLine is shown to receive only SetLength output; results of the unguarded accessor feed.Current() are shown to be nil-checked before being used as receiver or passed to switchTo; Update is shown to return before touching state while loading; every value added to the history is shown to be a Page allocated by the adding function itself (entries never share a page). Refinement of the keymap over histories is NOT claimed.",
    note="Not decided: that cursor/page/mode after an arbitrary key history equal the keymap's prediction, quiescence, History.Current on an empty history (mode/history invariant).",
    technique="static table agreement (documented keymap vs dispatcher), exhaustive panic enumeration with discharge, nil-guard dominance",
    ref="DESIGN.md §4 C07"),
})

CLAIMED.update({
  "C16": dict(
    text="The frame-height clause, decided by static abstract interpretation of the layout code in a line-count domain: every string value is abstracted to the number of its lines as a linear form over symbols (one per parameter or opaque value), slices of lines to their length, evaluated along every acyclic path of the function with the branch facts of the path as hypotheses and discharged by a small linear-inequality prover (equalities eliminated first); the transfer functions are summaries of strings.Count/Split/Join/Repeat/LastIndex/Contains, concatenation, slicing (bounds must be provable), unsigned subtraction (no wrap-around must be provable) and division/remainder by a constant. Decided: ansi.Height counts lines; on every path of ansi.CenterVertically the result has exactly `height` lines and the rows above the centred text are floor(spare/2) (spare rows split evenly, the odd one below); ansi.ReplaceLastLine keeps the number of lines of a frame of at least two rows and consists of the original up to its last line feed plus the replacement; every return of ui.(*State).view is such a frame for uint(s.height), the status line put in by ReplaceLastLine only; every call of the terminal callback in the module passes view() of the same state, with nothing called in between; State.height is stored only from the size the terminal reported, and SetWidthHeight takes every reported height >= 2 that differs from the stored one over before a frame is emitted. All heights >= 2 and all contents are covered because line counts are symbolic.",
    note="Assumed: terminal height >= 2 (the property's own precondition); library semantics as summarised in checker/lines.go; main.printRaw writes the frame unchanged apart from CR LF translation. Not decided: which item is highlighted and what the lines contain, heights below 2, states reached by key histories (C07), what the terminal does with the frame.",
    technique="static abstract interpretation in a line-count domain (linear forms per enumerated path, branch facts as hypotheses, linear-inequality prover) + call-site inventory of the terminal callback",
    ref="DESIGN.md §4 C16"),
})

CLAIMED.update({
  "C18": dict(
    text="Per-operation specifications and an inductive invariant for History and Feed, decided by path-wise abstract interpretation in a linear domain: the fields of the receiver before the operation are symbols, the invariant and the branch facts of each enumerated path are hypotheses, the values stored on the path are the state afterwards (loads of a field are required to precede the store to it), goals go to the linear-inequality prover. History: with `elements nil and index 0, or 0 <= index <= len-1`, Back moves the cursor by one exactly where index >= 1 and otherwise stays at 0, Forward by one exactly where index+1 <= len-1 and otherwise stays at the last entry, Add stores append(elements[:index+1], new) and index+1 (one-element list and 0 on a fresh history), every operation re-establishes the invariant, Current indexes within bounds on a non-empty history. Feed: Contains(k) is shown equivalent to lowerBound < index+k < upperBound; the three moves store index-1 / index+1 / 0 only where the target is known contained and touch nothing else; Append/Prepend write only keys at or beyond the bound they then move by len(input); Get/Current/IsParent/IsChild and the constructors are shape-checked against positions relative to the opened item. By induction over operations this is the list-with-cursor / two-sided-sequence behaviour for all operation sequences.",
    note="Assumed: fields written by their own packages only (checked). Not decided: map contents beyond which keys are written, a Feed from CreateEmpty (unused), an exhaustive comparison with an executable reference model.",
    technique="static path-wise abstract interpretation in a linear domain (pre-state symbols, inductive invariant as hypothesis, linear-inequality prover) + shape rules",
    ref="DESIGN.md §4 C18"),
})

CLAIMED.update({
  "C13": dict(
    text="Width clauses, the padding and indenting shapes and content preservation of the simple layout loops. Word-wrapping and hard-wrapping yield lines of at most the width: decided by static inference of an inductive loop invariant: ansi.Wrap and ansi.DumbWrap are one loop over the matches of ansi.expand; every string is abstracted to an upper bound of its number of visible characters (of the whole string, or of its last line for an accumulator that receives line feeds; strings.Builder accumulators are followed through their Write/String/Reset calls), the state of the loop is the phis of its header (and the builders), and the strongest inductive invariant inside a template family of linear facts (n >= 0, n <= w, sums <= w, `m = 0 or sum <= w`, visible(s) <= n over the counters n, m, the strings s and the width w) is computed Houdini style over all acyclic header-to-header paths, case-splitting on disjunctive facts and on != tests, with exact linear arithmetic (simplex over the rationals). From that invariant and the branch facts of each path it is proved that every element appended to the slice Wrap joins with line feeds, and DumbWrap's accumulator at every point where a character or line feed is added, has at most `width` visible characters, for every text and every width >= 1; ansi.expand's pattern is checked with regexp/syntax to consume exactly one character outside escape sequences per match, and expand to return all matches. With lower bounds next to the upper ones the same engine proves that every line ansi.Pad completes (and the last one it returns) has at least `length` visible characters, exactly `length` where padding was added. Content clauses of the three simple loops, by path enumeration: DumbWrap, Pad and Indent visit the matches of expand(text) in ascending order and on every acyclic path round the loop append to their one accumulator, at its end, inserted material and the content of the current match exactly once (the whole match with its escape sequences when the character is no line feed, a line feed when it is), so every character and every line break is kept in order; every line feed Indent emits is directly followed by the prefix, and the first line gets it exactly when asked. Content and break placement of Wrap (which buffers words and drops blanks at breaks by design) and Snip are NOT claimed.",
    note="Assumed: width >= 1 (the property's precondition); regexp semantics of FindAllStringSubmatch; a visible character is one match of ansi.expand. Not decided: for ansi.Wrap, that every non-whitespace character is kept with its styling in order, that line breaks between visible characters survive and that words are split only when longer than a line; ansi.Snip.",
    technique="static inference of an inductive loop invariant (Houdini over a linear template family, path enumeration with branch facts, exact LP) in a visible-width abstraction of strings (upper and lower bounds) + per-path append-sequence check (content) + regexp/syntax shape check",
    ref="DESIGN.md §4 C13"),
})

CLAIMED.update({
  "C14": dict(
    text="A typestate of strings, decided statically. A styled text is in normal form when it consists of plain characters and line feeds with no attribute active and of units `openers, ONE character, reset`; in such a text every character carries exactly the attributes of its own unit, nothing is active at a line feed or at the end, and concatenating, repeating, splitting or cutting normal-form texts at line feeds keeps the form. Decided: ansi.Apply — shown to be the only place with graphic-rendition escape constants — emits for every character other than a line feed exactly one opener carrying its style parameter, the character's own previous openers, the character and a reset, and emits line feeds bare (symbolic evaluation of the concatenation, lexed into opener / openers-of-match / character-of-match / reset events, with the branch fact `letter != \\n`); every function of packages ansi and style that returns a string returns normal form for normal-form parameters: an automaton (closed, opened, lettered) is run over what each returned value is concatenated from — lexed constants, pieces of a match of ansi.expand, parameters, slices of matches, results of the layer's own functions and of form-preserving library calls (Repeat, Join/Split at line feeds, cuts at the index of a line feed, trimming of blanks, strings.Builder writes) — with loop accumulators treated coinductively; outside package ansi no instruction looks inside a string that can carry styling (whole-program forward value flow from every ansi.Apply result to string slicing, indexing, conversion to runes/bytes, ranging and character-editing library calls; a regexp that only splits off blanks at one end is recognised with regexp/syntax). By induction over the calls every string the styling layer hands out is in normal form, for all nestings, concatenations and layout operations.",
    note="Assumed: the regexp semantics of ansi.expand's pattern (its shape is checked under C13.R0); ESC[0m means all attributes off; raw text contains no escape byte (C01). Not decided: what a terminal does with a given SGR parameter; that the style parameter is a valid SGR parameter (C01.R3 decides what it is built from); content preservation by the layout functions (C13); a design that styles runs of characters with one opener and one reset would be reported as not established.",
    technique="static typestate analysis of string values (automaton over symbolically evaluated concatenations, coinductive over loop accumulators) + whole-program forward value flow (taint) to string-inspecting operations + constant scan",
    ref="DESIGN.md §4 C14"),
})

NOT_APPLICABLE = {
  "C14": "per-character attribute sets after arbitrary nesting and layout are string values; the structural facts available (single SGR emitter) are not necessary conditions of this property (DESIGN.md §5)",
}

PENDING_REASON = "rules designed in DESIGN.md §4 but not yet implemented in the checker; not claimed until they run"

ALL = ["C%02d" % i for i in range(1, 21)]

def main():
    checks = []
    for pid in ALL:
        if pid not in CLAIMED:
            continue
        c = CLAIMED[pid]
        checks.append({
            "property_id": pid,
            "quick_cmd": f"bin/servcheck -property {pid} -tier quick",
            "thorough_cmd": f"bin/servcheck -property {pid} -tier thorough",
            "evidence_file": f"evidence/{pid}.json",
            "replay_cmd_template": "bin/servcheck -replay {path}",
            "engine": "servcheck",
            "level_claimed": {"category": "other", "text": c["text"], "design_ref": c["ref"]},
            "level_note": c["note"],
            "technique": c["technique"],
        })
    na = []
    for pid in ALL:
        if pid in CLAIMED:
            continue
        na.append({"property_id": pid, "reason": NOT_APPLICABLE.get(pid, PENDING_REASON)})
    m = {
        "version": 1,
        "setup_cmd": f"mkdir -p bin evidence && cd checker && env {GOENV} go build -o ../bin/servcheck .",
        "hooks": {
            "guard": "verif",
            "enable": "no hooks: the checker analyses /repo's source as it is (go/packages load of the working tree); the tag verif is reserved and the thorough tier also loads with -tags verif to show nothing hides behind it",
            "baseline_off_cmd": "cd /repo && env " + GOENV + " go test -vet=off -count=1 ./...",
            "source_commits": [],
            "add_only": True,
        },
        "engines": [{
            "name": "servcheck",
            "path": "checker/",
            "serves_properties": sorted(CLAIMED),
            "kind_free_text": "repository-specific static analyser: go/packages + go/types + go/ssa + VTA call graph; rule engines for taint, path facts, lock state, effects, linear forms and table agreement",
        }],
        "checks": checks,
        "not_applicable": na,
        "notes": "Static analysis only: every verdict is computed from the type-checked source of /repo's current working tree; servitor is never executed. Known and fixed findings: known_findings.json. Seeded breaking changes and which rule catches them: seeded/ and DESIGN.md §9.",
    }
    with open(os.path.join(HERE, "MANIFEST.json"), "w") as f:
        json.dump(m, f, indent=1)
        f.write("\n")
    try:
        import jsonschema
        jsonschema.validate(m, json.load(open("/root/.vp/MANIFEST.schema.json")))
        print("MANIFEST.json valid;", len(checks), "checks,", len(na), "not applicable")
    except ImportError:
        print("jsonschema not available; written without validation")

if __name__ == "__main__":
    main()
