#!/usr/bin/env python3
"""Generates /verif/MANIFEST.json from the table below (kept next to the checker
so the manifest, DESIGN.md and the rule registry stay in step)."""
import json, os, subprocess, sys

HERE = os.path.dirname(os.path.dirname(os.path.abspath(__file__)))

GOENV = "GOFLAGS=-mod=mod GOPROXY=off GOSUMDB=off GOTOOLCHAIN=local GOWORK=off"

CLAIMED = {
  "C01": dict(
    text="Whole-program static taint analysis over go/ssa with call/return matching (realizable paths, parameter->result summaries), field-based for servitor structs: it proves that on no path does a value derived from the TLS connection, a document file, a string asserted out of untyped JSON, or text re-materialised by the HTML parser (entity-decoded text nodes and attribute values, percent-decoded URL components) reach the terminal callback, a direct terminal write, or the text/preview/name of any item or any Markup.Render result without passing ansi.Scrub; the SGR parameter of ansi.Apply is shown to be built from constants and validated configuration colours only, and escape bytes in literals are confined to the SGR generator. A sanitiser-before-sink property is visible in the shape of the code, so one rule instance covers every document, markup type, header line and width at once.",
    note="Trusted: propagate-by-default summaries for library calls (results and written-through arguments), net/url.Parse rejecting control characters and quoting its input in errors, x/net/html copying tag names/attribute keys verbatim, ansi.Scrub's predicate (unicode.IsControl) being the right class. Not decided: terminal-specific interpretation of printable code points.",
    technique="static interprocedural taint (value-flow) analysis over SSA with call/return matching; sanitiser-before-sink",
    ref="DESIGN.md §4 C01"),
  "C08": dict(
    text="Whole-program static lock-state dataflow (held / caller's / not held, defer-aware) over go/ssa with the VTA call graph, plus an effects (write-set) analysis of fan-out goroutines: every access to UI state, every emitted frame and every render-cache write is shown to happen with State.m held on every path; lock pairing, non-reentrancy, WaitGroup balance, pairwise disjoint write sets of concurrently running closures and read-only sharing of documents/configuration are decided for every function of the module. All paths and all schedules are covered because the rule is a must-analysis over the code, not a sample of executions.",
    note="Trusted: go/types+go/ssa+VTA (x/tools v0.29.0), sync primitives, lru.Cache and singleflight.Group being internally synchronised, library callbacks being synchronous. Not decided: liveness under real schedulers, races inside dependencies, the deliberate lock hold on a failing sub-command.",
    technique="static lock-state must-dataflow + write-set (effects) disjointness over SSA and the VTA call graph",
    ref="DESIGN.md §4 C08"),
}

NOT_APPLICABLE = {
  "C13": "content preservation / line-length bounds of Wrap, DumbWrap, Pad, Indent, Snip are relations between input and output string values for all strings and widths; no sound static argument over the code's shape decides them (DESIGN.md §5)",
  "C14": "per-character attribute sets after arbitrary nesting and layout are string values; the structural facts available (single SGR emitter) are not necessary conditions of this property (DESIGN.md §5)",
  "C16": "frame-height identity is integer arithmetic over line counts inside CenterVertically; needs a relational numeric domain / solver, and the only structural clause would report 'holds' on a tree where the property is known to fail (DESIGN.md §5)",
  "C18": "refinement of History/Feed against list models over all operation sequences is a statement about integer and slice values over histories; not visible in the shape of the code (DESIGN.md §5)",
}

PENDING_REASON = "rules designed in DESIGN.md §4 but not yet implemented in the checker; not claimed until they run"

ALL = ["C%02d" % i for i in range(1, 21)]

def main():
    checks = []
    for pid in ALL:
        if pid not in CLAIMED:
            continue
        c = CLAIMED[pid]
        checks.append({
            "property_id": pid,
            "quick_cmd": f"bin/servcheck -property {pid} -tier quick",
            "thorough_cmd": f"bin/servcheck -property {pid} -tier thorough",
            "evidence_file": f"evidence/{pid}.json",
            "replay_cmd_template": "bin/servcheck -replay {path}",
            "engine": "servcheck",
            "level_claimed": {"category": "other", "text": c["text"], "design_ref": c["ref"]},
            "level_note": c["note"],
            "technique": c["technique"],
        })
    na = []
    for pid in ALL:
        if pid in CLAIMED:
            continue
        na.append({"property_id": pid, "reason": NOT_APPLICABLE.get(pid, PENDING_REASON)})
    m = {
        "version": 1,
        "setup_cmd": f"mkdir -p bin evidence && cd checker && env {GOENV} go build -o ../bin/servcheck .",
        "hooks": {
            "guard": "verif",
            "enable": "no hooks: the checker analyses /repo's source as it is (go/packages load of the working tree); the tag verif is reserved and the thorough tier also loads with -tags verif to show nothing hides behind it",
            "baseline_off_cmd": "cd /repo && env " + GOENV + " go test -vet=off -count=1 ./...",
            "source_commits": [],
            "add_only": True,
        },
        "engines": [{
            "name": "servcheck",
            "path": "checker/",
            "serves_properties": sorted(CLAIMED),
            "kind_free_text": "repository-specific static analyser: go/packages + go/types + go/ssa + VTA call graph; rule engines for taint, path facts, lock state, effects, linear forms and table agreement",
        }],
        "checks": checks,
        "not_applicable": na,
        "notes": "Static analysis only: every verdict is computed from the type-checked source of /repo's current working tree; servitor is never executed. Known and fixed findings: known_findings.json. Seeded breaking changes and which rule catches them: seeded/ and DESIGN.md §9.",
    }
    with open(os.path.join(HERE, "MANIFEST.json"), "w") as f:
        json.dump(m, f, indent=1)
        f.write("\n")
    try:
        import jsonschema
        jsonschema.validate(m, json.load(open("/root/.vp/MANIFEST.schema.json")))
        print("MANIFEST.json valid;", len(checks), "checks,", len(na), "not applicable")
    except ImportError:
        print("jsonschema not available; written without validation")

if __name__ == "__main__":
    main()
