#!/usr/bin/env python3
"""Validate a seeded breaking change and run the checks against it.
usage: seedcheck.py <dir with changeK.diff, changeK_demo/> <K> [--keep]
Applies the diff to a scratch worktree of /repo HEAD (never to /repo), confirms build + existing tests,
runs the demonstration with and without the change, then runs `servcheck -all` on the changed tree."""
import json, os, re, shutil, subprocess, sys, tempfile, glob

W = os.environ.get("SEED_W", "/tmp/scratch/w")
RACE = "-race"
ENV = dict(os.environ, GOFLAGS="-mod=mod", GOPROXY="off", GOSUMDB="off", GOTOOLCHAIN="local")

def sh(cmd, cwd=W, env=None, timeout=600):
    p = subprocess.run(cmd, shell=True, cwd=cwd, env=env or ENV, capture_output=True, text=True, timeout=timeout)
    return p.returncode, p.stdout + p.stderr

def reset():
    head = subprocess.check_output("git -C /repo rev-parse HEAD", shell=True, text=True).strip()
    sh(f"git checkout -q --detach {head} && git checkout -q -- . && git clean -fdq")

def demo_tests(demo_dir):
    """returns {pkg_rel_dir: [TestNames]} and copies nothing"""
    out = {}
    for root, _, files in os.walk(demo_dir):
        for f in files:
            if f.endswith(".go"):
                rel = os.path.relpath(root, demo_dir)
                names = re.findall(r"^func (Test\w+)\(", open(os.path.join(root, f)).read(), re.M)
                out.setdefault(rel, []).extend(n for n in names if n != "TestMain")
    return out

def run_demo(demo_dir, xdg):
    # copy demo files into place
    for root, _, files in os.walk(demo_dir):
        for f in files:
            rel = os.path.relpath(os.path.join(root, f), demo_dir)
            dst = os.path.join(W, rel)
            os.makedirs(os.path.dirname(dst), exist_ok=True)
            shutil.copy(os.path.join(root, f), dst)
    env = dict(ENV, XDG_CONFIG_HOME=xdg)
    results = {}
    for pkg, names in demo_tests(demo_dir).items():
        if not names:
            continue
        pat = "^(" + "|".join(sorted(set(names))) + ")$"
        rc, out = sh(f"go test -vet=off -count=1 {RACE} -run '{pat}' ./{pkg}", env=env, timeout=900)
        if "race" in out and "requires cgo" in out:
            rc, out = sh(f"go test -vet=off -count=1 -run '{pat}' ./{pkg}", env=env, timeout=900)
        results[pkg] = (rc, out[-1500:])
    return results

def main():
    d, k = sys.argv[1], sys.argv[2]
    diff = os.path.join(d, f"change{k}.diff")
    demo = os.path.join(d, f"change{k}_demo")
    xdg = tempfile.mkdtemp(prefix="xdg")
    rep = {"diff": diff}
    reset()
    # without the change
    base = run_demo(demo, xdg)
    if any(rc != 0 for rc, _ in base.values()):
        # timing-sensitive demonstrations can fail under the race detector's slowdown
        global RACE
        RACE = ""
        reset()
        base = run_demo(demo, xdg)
    rep["race_detector"] = bool(RACE)
    rep["demo_without_change"] = {p: ("pass" if rc == 0 else "FAIL") for p, (rc, _) in base.items()}
    reset()
    rc, out = sh(f"git apply {diff}")
    rep["applies"] = rc == 0
    if rc != 0:
        rep["apply_error"] = out[-500:]
        print(json.dumps(rep, indent=1)); return
    rc, out = sh("go build ./...")
    rep["builds"] = rc == 0
    rc, out = sh("go test -vet=off -count=1 ./... 2>&1 | grep -E '^(--- FAIL|FAIL|ok|panic)'", env=dict(ENV, XDG_CONFIG_HOME=xdg))
    fails = [l for l in out.splitlines() if l.startswith("--- FAIL")]
    rep["existing_tests_fail"] = [l for l in fails if "TestBasic" not in l and "TestRedirect" not in l]
    # servcheck on the changed tree (before adding demo files)
    rc, out = sh("/verif/bin/servcheck -all -repo %s -verif %s 2>&1" % (W, W.replace("/lane", "/vlane") if "/lane" in W else "/tmp/scratch/v"), timeout=900)
    viol = {}
    cur = None
    for l in out.splitlines():
        m = re.match(r"\s+rule (C\d+\.\w+)\s+(\S+)", l)
        if m:
            viol.setdefault(m.group(1), []).append(m.group(2))
    rep["servcheck_violations"] = {r: v[:3] for r, v in viol.items()}
    rep["servcheck_broken"] = [l for l in out.splitlines() if l.startswith("CHECK-BROKEN")][:5]
    withc = run_demo(demo, xdg)
    rep["demo_with_change"] = {p: ("pass" if rc == 0 else "FAIL") for p, (rc, _) in withc.items()}
    rep["demo_with_change_tail"] = {p: o[-600:] for p, (rc, o) in withc.items() if rc != 0}
    if "--keep" not in sys.argv:
        reset()
    shutil.rmtree(xdg, ignore_errors=True)
    print(json.dumps(rep, indent=1))

main()
