#!/bin/bash
# usage: mut.sh <property> <file> <python-expr-old> <python-expr-new>   (scratch worktree at /tmp/scratch/w)
# applies a textual replacement in a scratch worktree of /repo HEAD, checks that it still builds, runs the check, resets.
set -u
W=/tmp/scratch/w
prop=$1; file=$2; old=$3; new=$4
cd $W && git checkout -q --detach $(git -C /repo rev-parse HEAD) 2>/dev/null; git checkout -q . 
python3 - "$file" "$old" "$new" <<'PY'
import sys
f,old,new=sys.argv[1:4]
s=open(f).read()
if old not in s:
    print("MUT: pattern not found"); sys.exit(3)
open(f,'w').write(s.replace(old,new,1))
PY
[ $? -eq 0 ] || exit 3
export GOFLAGS=-mod=mod GOPROXY=off GOSUMDB=off GOTOOLCHAIN=local
if ! go build ./... 2>/tmp/scratch/build.err; then echo "MUT: does not build"; head -5 /tmp/scratch/build.err; git checkout -q .; exit 4; fi
/verif/bin/servcheck -repo $W -verif /tmp/scratch/v -property $prop 2>&1 | grep -E "^VIOLATION|^  rule|^  at|quick:|CHECK-BROKEN" | head -${5:-8}
git checkout -q .
