#!/bin/bash
# usage: diffcheck.sh <diff> [servcheck binary] [max lines] — applies the diff in scratch worktree $W (default /tmp/scratch/w2, never /repo), builds, runs servcheck -all, resets.
# A run that ends in anything but exit 0 (held) or 1 (violations reported) is printed as CHECK-BROKEN: a crash must not look like silence.
W=${W:-/tmp/scratch/w2}; BIN=${2:-/verif/bin/servcheck}
cd $W && git checkout -q --detach $(git -C /repo rev-parse HEAD) && git checkout -q -- . && git clean -fdq
if ! git apply "$1" 2>/tmp/scratch/apply.err.$$; then echo "NOAPPLY $(head -2 /tmp/scratch/apply.err.$$)"; rm -f /tmp/scratch/apply.err.$$; exit 3; fi
rm -f /tmp/scratch/apply.err.$$
export GOFLAGS=-mod=mod GOPROXY=off GOSUMDB=off GOTOOLCHAIN=local
if ! go build ./... 2>/tmp/scratch/build2.err.$$; then echo "NOBUILD"; head -3 /tmp/scratch/build2.err.$$; rm -f /tmp/scratch/build2.err.$$; git checkout -q -- .; exit 4; fi
rm -f /tmp/scratch/build2.err.$$
$BIN -all -repo $W -verif ${V:-/tmp/scratch/v2} > /tmp/scratch/dc.out.$$ 2>&1
rc=$?
grep -E "^  rule |^  at |CHECK-BROKEN|^panic:|^fatal error|quick: .* [1-9][0-9]* violations" /tmp/scratch/dc.out.$$ | head -${3:-30}
if [ $rc -ne 0 ] && [ $rc -ne 1 ]; then echo "CHECK-BROKEN servcheck ended with exit status $rc"; fi
if [ $rc -eq 1 ] && ! grep -q "^VIOLATION" /tmp/scratch/dc.out.$$; then echo "CHECK-BROKEN exit status 1 without a VIOLATION line"; fi
rm -f /tmp/scratch/dc.out.$$
git checkout -q -- . && git clean -fdq
