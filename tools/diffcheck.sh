#!/bin/bash
# usage: diffcheck.sh <diff> [servcheck binary]  — applies the diff in scratch worktree /tmp/scratch/w2 (never /repo), builds, runs servcheck -all, resets.
W=${W:-/tmp/scratch/w2}; BIN=${2:-/verif/bin/servcheck}
cd $W && git checkout -q --detach $(git -C /repo rev-parse HEAD) && git checkout -q -- . && git clean -fdq
if ! git apply "$1" 2>/tmp/scratch/apply.err; then echo "NOAPPLY $(head -2 /tmp/scratch/apply.err)"; exit 3; fi
export GOFLAGS=-mod=mod GOPROXY=off GOSUMDB=off GOTOOLCHAIN=local
if ! go build ./... 2>/tmp/scratch/build2.err; then echo "NOBUILD"; head -3 /tmp/scratch/build2.err; git checkout -q -- .; exit 4; fi
$BIN -all -repo $W -verif ${V:-/tmp/scratch/v2} 2>&1 | grep -E "^  rule |^  at |CHECK-BROKEN|quick: .* [1-9][0-9]* violations" | head -${3:-30}
git checkout -q -- . && git clean -fdq
