#!/bin/bash
# Regression harness for the checker itself (development aid, not a registered check):
#  1. every property passes on the unchanged /repo tree
#  2. every self-test mutant is killed
#  3. every seeded breaking change under /verif/seeded is reported as recorded in its meta.json
#  4. no behaviour-preserving refactoring under /verif/benign raises a violation
BIN=${1:-/verif/bin/servcheck}
export GOFLAGS=-mod=mod GOPROXY=off GOSUMDB=off GOTOOLCHAIN=local
fail=0
echo "== 1. unchanged tree"
$BIN -all -verif /tmp/scratch/v 2>&1 | grep -E "VIOLATION|BROKEN" && fail=1
echo "== 2. mutants"
ids=$(grep -oE '^\s*\{"C[0-9]+-[a-z0-9-]+"' /verif/checker/mutants.go | tr -d ' \t{"')
echo "$ids" | xargs -P 10 -I{} sh -c "$BIN -mutant {} -repo /repo -verif /tmp/scratch/v 2>/dev/null | tail -1" > /tmp/scratch/mut.out
python3 - <<'PY' || fail=1
import json,sys
bad=0; n=0
for l in open('/tmp/scratch/mut.out'):
    l=l.strip()
    if l.startswith('{'):
        r=json.loads(l); n+=1
        if r['status']!='killed': print('  ',r['status'],r['id'],r.get('rules'),(r.get('detail') or '')[:200]); bad+=1
print('  mutants:',n,'not killed:',bad)
sys.exit(1 if bad else 0)
PY
echo "== 3. seeded breaking changes"
for d in /verif/seeded/*/; do
  id=$(basename $d); prop=${id:0:3}
  out=$(/verif/tools/diffcheck.sh $d/patch.diff $BIN 400 2>&1)
  own=$(echo "$out" | grep -oE "rule $prop\.[A-Za-z0-9]+" | sort -u | tr '\n' ' ')
  exp=$(python3 -c "import json;print(json.load(open('$d/meta.json'))['detected'])")
  if [ -n "$own" ]; then got=True; else got=False; fi
  printf "  %-8s expected_detected=%s got=%s %s\n" $id $exp $got "$own"
  [ "$exp" = "True" ] && [ "$got" = "False" ] && fail=1
done
echo "== 4. benign refactorings"
for f in /verif/benign/*.diff; do
  out=$(/verif/tools/diffcheck.sh $f $BIN 400 2>&1)
  if echo "$out" | grep -qE "rule |NOAPPLY|NOBUILD|BROKEN"; then echo "  FALSE ALARM on $(basename $f):"; echo "$out" | head -6; fail=1; fi
done
echo "regress: fail=$fail"
exit $fail
