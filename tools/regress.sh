#!/bin/bash
# Regression harness for the checker itself (development aid, not a registered check):
#  1. every property passes on the unchanged /repo tree
#  2. every self-test mutant is killed
#  3. every seeded breaking change under /verif/seeded is reported as recorded in its meta.json
#  4. no behaviour-preserving refactoring under /verif/benign raises a violation
# Parts 3 and 4 run in six lanes, each with a scratch worktree of its own (/tmp/scratch/lane1..6).
BIN=${1:-/verif/bin/servcheck}
export GOFLAGS=-mod=mod GOPROXY=off GOSUMDB=off GOTOOLCHAIN=local
fail=0
for i in 1 2 3 4 5 6; do
  [ -d /tmp/scratch/lane$i ] || git -C /repo worktree add -q --detach /tmp/scratch/lane$i HEAD
done
echo "== 1. unchanged tree"
$BIN -all -verif /tmp/scratch/v 2>&1 | grep -E "VIOLATION|BROKEN" && fail=1
echo "== 2. mutants"
ids=$(grep -oE '^\s*\{"C[0-9]+-[a-z0-9-]+"' /verif/checker/mutants.go | tr -d ' \t{"')
echo "$ids" | xargs -P 10 -I{} sh -c "$BIN -mutant {} -repo /repo -verif /tmp/scratch/v 2>/dev/null | tail -1" > /tmp/scratch/mut.out
python3 - <<'PY' || fail=1
import json,sys
bad=0; n=0
for l in open('/tmp/scratch/mut.out'):
    l=l.strip()
    if l.startswith('{'):
        r=json.loads(l); n+=1
        if r['status']!='killed': print('  ',r['status'],r['id'],r.get('rules'),(r.get('detail') or '')[:200]); bad+=1
print('  mutants:',n,'not killed:',bad)
sys.exit(1 if bad else 0)
PY
echo "== 3. seeded breaking changes"
seed_one() {
  d=$1; lane=$2; BIN=$3
  id=$(basename $d); prop=${id:0:3}
  if grep -q '"obsolete_since"' $d/meta.json; then echo "  $id obsolete (no longer breaks the property on the repaired tree), skipped"; return; fi
  out=$(W=/tmp/scratch/lane$lane V=/tmp/scratch/vlane$lane /verif/tools/diffcheck.sh $d/patch.diff $BIN 400 2>&1)
  own=$(echo "$out" | grep -oE "rule $prop\.[A-Za-z0-9]+" | sort -u | tr '\n' ' ')
  exp=$(python3 -c "import json;print(json.load(open('$d/meta.json'))['detected'])")
  if [ -n "$own" ]; then got=True; else got=False; fi
  printf "  %-8s expected_detected=%s got=%s %s\n" $id $exp $got "$own"
  if [ "$exp" = "True" ] && [ "$got" = "False" ]; then echo "  REGRESSION $id"; fi
}
benign_one() {
  f=$1; lane=$2; BIN=$3
  out=$(W=/tmp/scratch/lane$lane V=/tmp/scratch/vlane$lane /verif/tools/diffcheck.sh $f $BIN 400 2>&1)
  if echo "$out" | grep -qE "rule |NOAPPLY|NOBUILD|BROKEN"; then echo "  FALSE ALARM on $(basename $f):"; echo "$out" | head -6; fi
}
export -f seed_one benign_one
run_lanes() { # $1 = function, rest = items
  fn=$1; shift
  i=0
  for lane in 1 2 3 4 5 6; do : > /tmp/scratch/lane$lane.items; done
  for it in "$@"; do lane=$(( i % 6 + 1 )); echo "$it" >> /tmp/scratch/lane$lane.items; i=$((i+1)); done
  for lane in 1 2 3 4 5 6; do
    ( while read it; do $fn "$it" $lane $BIN; done < /tmp/scratch/lane$lane.items > /tmp/scratch/lane$lane.out 2>&1 ) &
  done
  wait
  cat /tmp/scratch/lane[1-6].out | sort
}
run_lanes seed_one /verif/seeded/*/ > /tmp/scratch/seeds.out
cat /tmp/scratch/seeds.out
grep -q "REGRESSION" /tmp/scratch/seeds.out && fail=1
echo "== 4. benign refactorings"
run_lanes benign_one /verif/benign/*.diff > /tmp/scratch/benign.out
cat /tmp/scratch/benign.out
grep -q "FALSE ALARM" /tmp/scratch/benign.out && fail=1
echo "regress: fail=$fail"
exit $fail
